#!/usr/bin/env bash
# Thorough tier of C01, second execution substrate: the same simulator binary under Miri over a
# bounded, targeted slice (every integer target type x numeric literals at the type bounds through
# the float fallback that ends in `to_int_unchecked`; list expressions through the channel-list /
# numeric-list iterators). Undefined behaviour aborts the interpreter => violation.
set -u
HERE="$(cd "$(dirname "${BASH_SOURCE[0]}")/.." && pwd)"
export VERIF_DIR="$HERE"
cd "$HERE/sim" || exit 2
SHARDS="${VERIF_MIRI_SHARDS:-16}"
TOTAL=$("$HERE/sim/target/simdbg/sim" runs C01 tiny 2>/dev/null || echo 640)
export MIRIFLAGS="-Zmiri-disable-isolation -Zmiri-ignore-leaks"
# build once
if ! cargo +nightly miri run --offline -q -- list >/dev/null 2>"$HERE/evidence/parts/miri-build.log"; then
  tail -20 "$HERE/evidence/parts/miri-build.log" >&2; echo "harness error: miri build failed" >&2; exit 2
fi
t0=$(date +%s)
pids=(); 
per=$(( (TOTAL + SHARDS - 1) / SHARDS ))
for s in $(seq 0 $((SHARDS-1))); do
  a=$((s*per)); b=$(( (s+1)*per )); [ $b -gt $TOTAL ] && b=$TOTAL
  [ $a -ge $TOTAL ] && break
  ( VERIF_WORKERS=1 cargo +nightly miri run --offline -q -- run C01 tiny --from $a --to $b --part miri$s > "$HERE/evidence/parts/miri-C01-$s.log" 2>&1; echo $? > "$HERE/evidence/parts/miri-C01-$s.rc" ) &
  pids+=($!)
done
wait
t1=$(date +%s)
rc=0; runs=0
for s in $(seq 0 $((SHARDS-1))); do
  [ -f "$HERE/evidence/parts/miri-C01-$s.rc" ] || continue
  r=$(cat "$HERE/evidence/parts/miri-C01-$s.rc")
  if [ "$r" != "0" ]; then
    rc=1
    echo "--- miri shard $s (exit $r):"; grep -E "Undefined Behavior|error:|VIOLATION|panicked" -A6 "$HERE/evidence/parts/miri-C01-$s.log" | head -30
  fi
  n=$(grep -o "runs=[0-9]*" "$HERE/evidence/parts/miri-C01-$s.log" | tail -1 | cut -d= -f2); runs=$((runs + ${n:-0}))
done
if [ $rc -ne 0 ]; then
  if grep -q "Undefined Behavior" "$HERE"/evidence/parts/miri-C01-*.log; then
    # identify the run: shards execute run indices in order and print the index before executing
    f=$(grep -l "Undefined Behavior" "$HERE"/evidence/parts/miri-C01-*.log | head -1)
    run=$(grep -o "MIRI-RUN [0-9]*" "$f" | tail -1 | cut -d' ' -f2)
    mkdir -p "$HERE/replays"
    VERIF_SEED="${VERIF_SEED:-1}" "$HERE/sim/target/simdbg/sim" gen C01 "${run:-0}" tiny > "$HERE/replays/C01-miri-run${run:-0}.json"
    echo "VIOLATION property=C01 replay=$HERE/replays/C01-miri-run${run:-0}.json"
    echo "  invariant=C01.undefined_behaviour signature=miri_ub (Miri reports undefined behaviour while executing this trace; see $f)"
    exit 1
  fi
  echo "harness error: miri pass failed without a UB report" >&2; exit 2
fi
echo "MIRI OK property=C01 runs=$runs shards=$SHARDS wall=$((t1-t0))s"
python3 - "$HERE" "$runs" "$((t1-t0))" <<'PY'
import json,sys
here,runs,wall=sys.argv[1],int(sys.argv[2]),int(sys.argv[3])
p=f"{here}/evidence/C01.json"
e=json.load(open(p))
e["coverage"]["miri_pass"]={"runs":runs,"wall_s":wall,"what":"same simulator binary interpreted by Miri over the targeted C01 slice (integer bounds through the unsafe cast, list iterators); no undefined behaviour reported"}
json.dump(e,open(p,"w"),indent=1)
PY
exit 0
