#!/usr/bin/env bash
# Parallel sensitivity / false-alarm re-validation of the simulator WITHOUT touching /repo:
# every worker gets a private git worktree of /repo HEAD and a private copy of /verif (warm build
# output included) whose sim/Cargo.toml points at that worktree, applies one change at a time there,
# runs the quick check(s), undoes it. The results are for judging the machinery only - they are
# never evidence (evidence comes from ./check run in /verif against /repo).
#
# usage: par_validate.sh seeded [ids...]     owning check per change      -> seeded/results.par.tsv
#        par_validate.sh cross PROP ids...   check PROP per change         -> seeded/results.parcross.tsv
#        par_validate.sh benign [ids...]     all 12 checks per change     -> benign/results.par.tsv
#        par_validate.sh bown [ids...]       benign change x the check of the property it was written against (must exit 0)
#        par_validate.sh bcross PROP ids...  benign change x check PROP (must exit 0 unless listed in expected_alarms.tsv)
# env: PV_WORKERS (default 6), PV_ROOT (default /tmp/pv)
set -u
HERE="$(cd "$(dirname "${BASH_SOURCE[0]}")/.." && pwd)"
MODE="${1:?mode}"; shift
CROSS=""
if [ "$MODE" = cross ] || [ "$MODE" = bcross ]; then CROSS="$1"; shift; fi
W="${PV_WORKERS:-6}"; ROOT="${PV_ROOT:-/tmp/pv}"
case "$MODE" in
  seeded|cross) SRC=seeded ;;
  benign|bown|bcross) SRC=benign ;;
  *) echo "unknown mode" >&2; exit 2 ;;
esac
ids=("$@")
if [ ${#ids[@]} -eq 0 ]; then mapfile -t ids < <(ls -d "$HERE/$SRC"/C*-* | xargs -n1 basename | sort -V); fi
mkdir -p "$ROOT"
cleanup() { for k in $(seq 1 "$W"); do git -C /repo worktree remove --force "$ROOT/$k/repo" 2>/dev/null; done; rm -rf "$ROOT"; git -C /repo worktree prune; }
trap cleanup EXIT
PROPS="C01 C02 C04 C05 C06 C10 C11 C12 C13 C14 C15 C16"
worker() { # k
  local k="$1" wr="$ROOT/$1/repo" wv="$ROOT/$1/verif"
  mkdir -p "$ROOT/$k"
  git -C /repo worktree add --detach "$wr" HEAD -q || return 2
  mkdir -p "$wv"
  rsync -a --exclude seeded --exclude benign --exclude seeded-rejected --exclude replays --exclude .git "$HERE/" "$wv/"
  sed -i "s#/repo/#$wr/#g" "$wv/sim/Cargo.toml"
  local i=0
  for id in "${ids[@]}"; do
    i=$((i + 1)); [ $(( (i - 1) % W + 1 )) -eq "$k" ] || continue
    local d="$HERE/$SRC/$id"
    git -C "$wr" checkout -q -- .
    if ! git -C "$wr" apply "$d/patch.diff" 2>/dev/null; then echo -e "$id\tpatch-failed"; continue; fi
    if [ "$MODE" = benign ]; then
      local alarms=""
      for p in $PROPS; do
        out="$ROOT/$k/out.txt"
        ( cd "$wv" && ./check "$p" quick ) > "$out" 2>&1; rc=$?
        [ $rc -ne 0 ] && alarms="$alarms $p(rc=$rc:$(grep -m1 -o 'invariant=[^ ]* signature=[^ ]*' "$out"))"
      done
      exp=$(grep -P "^$id\t" "$HERE/benign/expected_alarms.tsv" | cut -f2)
      verdict=""
      if [ -n "$alarms" ]; then
        verdict="UNEXPECTED"
        if [ -n "$exp" ]; then
          verdict="expected ($exp may alarm)"
          for a in $(echo "$alarms" | grep -o 'C[0-9][0-9](rc' | cut -c1-3); do case ",$exp," in *",$a,"*) ;; *) verdict="UNEXPECTED";; esac; done
        fi
      fi
      echo -e "$id\t${alarms:-all 12 checks exit 0}\t$verdict"
    else
      local prop="${CROSS:-${id%-*}}" out="$ROOT/$k/out.txt"
      ( cd "$wv" && ./check "$prop" quick ) > "$out" 2>&1; rc=$?
      viol=$(grep -m1 "invariant=" "$out" | sed 's/^ *//')
      if [ "$SRC" = seeded ]; then if [ -n "$CROSS" ]; then cp "$out" "$d/detect.cross-$CROSS.txt"; else cp "$out" "$d/detect.quick.txt"; fi; fi
      [ $rc -eq 2 ] && viol="HARNESS-ERROR $(tail -3 "$out" | tr '\n' ' ' | cut -c1-300)"
      echo -e "$id\t$prop\trc=$rc\t$viol"
    fi
    git -C "$wr" checkout -q -- .
  done
}
case "$MODE" in seeded) OUT="$HERE/seeded/results.par.tsv" ;; cross) OUT="$HERE/seeded/results.parcross.tsv" ;; benign) OUT="$HERE/benign/results.par.tsv" ;; bown) OUT="$HERE/benign/results.parown.tsv" ;; bcross) OUT="$HERE/benign/results.parcross-$CROSS.tsv" ;; esac
: > "$OUT.new"
for k in $(seq 1 "$W"); do worker "$k" >> "$OUT.new" & done
wait
sort -V "$OUT.new" > "$OUT"; rm -f "$OUT.new"
echo "wrote $OUT: $(wc -l < "$OUT") lines; rc=0: $(grep -c 'rc=0' "$OUT"); UNEXPECTED: $(grep -c UNEXPECTED "$OUT")"
