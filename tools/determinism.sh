#!/usr/bin/env bash
# Determinism proof: for every property, the event-log hash (FNV-1a over every observed output and
# the device state after every step, merged in run order) of the first N runs must be identical
# across separate processes, worker counts (1, 5, 16) and repeated executions, for several seeds
# and both build profiles. Exit 2 on any mismatch.
set -u
HERE="$(cd "$(dirname "${BASH_SOURCE[0]}")/.." && pwd)"
export VERIF_DIR="$HERE"
N="${1:-2000}"
DBG="$HERE/sim/target/simdbg/sim"; REL="$HERE/sim/target/release/sim"
fail=0; total=0
for seed in 1 7 123456789; do
  for p in $("$DBG" list); do
    ref=""
    for bin in "$DBG" "$REL"; do
      for w in 1 5 16; do
        h=$(VERIF_SEED=$seed VERIF_WORKERS=$w "$bin" hash $p quick --from 0 --to $N | grep -o "event_log_hash=[0-9a-f]*")
        total=$((total+1))
        # the two profiles execute the same traces and must observe the same outputs
        if [ -z "$ref" ]; then ref="$h"; fi
        if [ "$h" != "$ref" ]; then echo "MISMATCH seed=$seed prop=$p bin=$(basename $(dirname $bin)) workers=$w: $h vs $ref"; fail=1; fi
      done
    done
    echo "seed=$seed $p $ref (6 executions agree)"
  done
done
echo "executions=$total runs_each=$N"
if [ $fail -ne 0 ]; then echo "harness error: determinism proof failed" >&2; exit 2; fi
echo "determinism: OK"
