#!/usr/bin/env python3
"""Writes seeded/<id>/meta.json from validation.json (scratch-worktree confirmation), the
detect.<tier>.txt files produced by tools/run_seeded.sh and the table below."""
import json, os, glob, re
HERE=os.path.dirname(os.path.dirname(os.path.abspath(__file__)))
INFO={
"C01-1":("Parameters::next_optional_token takes the token after a ',' unconditionally; a non-data token reaches the typed conversions => unreachable!() panic (debug) / -300 Internal parser error (release)","a handler pulling >=2 parameters and the input '<data>,*X' (common-command mnemonic after a data separator)"),
"C01-2":("read_arbitrary_data skips the payload with nth(payload_len-1).unwrap()","a zero-length definite block (#10, #200)"),
"C01-3":("length check of character data / suffix moved after the scan loop, u8 counter overflows","a character datum or suffix of >= 256 characters, overflow-check (debug) profile only"),
"C02-1":("Branch exec sets the relative-header level to the branch itself before descending into a default child branch at end of header","a unit whose header ends on a branch that has a default branch but no default leaf, followed by a relative unit (INIT;ABOR)"),
"C02-2":("mnemonic_match refactor: unsuffixed definition accepts any numeric suffix","header with an explicit suffix != 1 aimed at a level holding the unsuffixed definition (outp3:stat?)"),
"C02-3":("ProgramMessageUnitSeparator dropped from the 'header ends on branch' pattern","omitted default node, event form, no white space, directly followed by ';' and another unit (INIT;*OPC?)"),
"C04-1":("block payload skipped with nth(payload_len.saturating_sub(1))","an empty definite block directly followed by ',' or ';'"),
"C04-2":("in_data reset moved from the ';' arm to the header-separator arm (query headers never reset it)","earlier unit with data, later QUERY unit with a leading comma (SET 1;GET? ,2)"),
"C04-3":("13-character check of character data moved before consuming the character","character datum of exactly 13 characters"),
"C05-1":("ResponseUnit::data only chains on the latched result for the first item","a formatter failure on a non-last item of a multi-item response unit while a later item fits"),
"C05-2":("message terminator written in run() after the error hook","formatter failure exactly at the terminator write"),
"C05-3":("tokenizer reports ';;' as error on the first ';' (look-ahead)","empty unit at position >= 2 preceded by a parameterless event unit (ARM;;FIRE): the unit in front is skipped"),
"C06-1":("left-over check lists data token kinds explicitly and forgets ArbitraryBlockData","handler consumes nothing and the first element is a block => -102 instead of -108"),
"C06-2":("next_optional_token consumes a token before looking at it","optional pull beyond the unit's elements in a unit that is not the last: swallows ';', can be handed the next unit's data"),
"C06-3":("in_data flag set only in guarded data arms, '(' arm missed","expression data as FIRST element followed by another element"),
"C10-1":("header/data separator branch order swapped in ResponseUnit::data","response unit with a header and >= 2 data"),
"C10-2":("terminator not written on the 'None' exit of the unit loop (reverts fix 83485fa)","message with a query ending in a trailing ';'"),
"C10-3":("formatters skip the unit separator when the buffer already ends in ';'","block / str response ending in the byte ';' followed by another query"),
"C11-1":("ResponseUnit::data overwrites a latched failure","fixed buffer where an earlier longer item overflows and later shorter items + NL fit"),
"C11-2":("terminator written in run() after handle_error","capacity == response length - 1: Err(-225) returned but device never notified"),
"C11-3":("unit suffix matching via to_ascii_uppercase() (allocates a Vec)","numeric parameter with unit suffix converted to a uom quantity"),
"C12-1":("overflow marker written in place keeps the replaced error's extended text","overflow while the newest entry carries extended text"),
"C12-2":("pushes dropped while the -350 marker is the tail even when there is room","overflow, pop some but not all, push"),
"C12-3":("Vec queue pop uses swap_remove(0)",">= 3 entries queued and >= 2 pops"),
"C13-1":("*OPC overwrites ESR instead of OR-ing","failed message, then *OPC before ESR is read, then *ESR?"),
"C13-2":("esr_mask: every Custom error => bit 3","handler-raised custom error numbered in another class"),
"C13-3":("message_start/message_end hoisted into run() after the hook call","bounded formatter failing exactly on the terminator: error returned but not queued / no ESR bit"),
"C14-1":("esr_mask: every Custom error => bit 3","custom error number outside -399..-300 / positive"),
"C14-2":("derive(ScpiError) get_error as binary search that never examines the last table entry","lookup of exactly -800"),
"C14-3":("Underflow arm lost when factoring the numeric error mapping","value below the minimum of the integer target => -120 instead of -222"),
"C15-1":("EventRegister::preset() = *self = Self::default() (also clears the event register)","latched event, STATus:PRESet before the event register is read"),
"C15-2":("lost parentheses in set_condition: negative-transition term no longer gated by 'changed'","non-zero NTR filter and a condition update where a filtered bit stays 0"),
"C15-3":("NTRansition? no longer masks bit 15","value >= 32768 written to NTR, then NTR?"),
"C16-1":("MSS computed before ESB in scpi_stb","ESB is the only SRE-enabled reported bit"),
"C16-2":("*RST clears ESR bit 0","*OPC pending (bit 0 set) then *RST"),
"C16-3":("*TST? propagates a failing self test with '?'","device self test fails"),
# ---- second wave ("as deeply hidden as you can")
"C01-4":("next_optional_token after a separator hands out any Ok token (no recursion)","handler pulling a 2nd parameter and ',*X' in the message: non-data token reaches the conversions (panic in debug / -300 in release)"),
"C01-5":("both 'tokenizer shouldn't emit anything else' arms of Node::exec replaced by parser_unreachable!()","resolvable header immediately followed by a well-formed '(...)' without white space (ROUT:CLOS(@1,2))"),
"C01-6":("isize::try_from(ChannelSpec) calls count() on the rest of a non-advancing iterator","channel spec whose first number is followed by a dangling sign ((@3-)): Node::run never returns"),
"C02-4":("child loop skips children whose name is shorter than the received mnemonic","unsuffixed node spelled in full long form with an explicit 1 (SYST:VERSION1?)"),
"C02-5":("in_common cleared when a plain mnemonic is read instead of at ';'","common-command unit immediately followed by a unit with a leading colon (*COM;:SYST:VERS?)"),
"C02-6":("level recorded only when the branch itself consumed a ':'","unit ending below an omitted default branch followed by a relative header that exists only one level up (SENS:NPLC;FUNC?) => handler runs instead of -113"),
"C04-4":("suffix length check done after the scan with 'len as u8'","suffix of 256..268 (512..524, ...) characters accepted"),
"C04-5":("in_common reset moved from ';' to the mnemonic arm","*CLS;:SYST:VERS? rejected with -103"),
"C04-6":("#0 block strips CR NL instead of NL","indefinite block whose last payload byte is 0x0D loses it"),
"C05-4":("message_start() moved in front of the hook block in run()","a formatter whose message_start fails: error returned, hook never called"),
"C05-5":("ResponseUnit::header overwrites a latched failure","query writing >= 2 header parts, transient failure on the first"),
"C05-6":("default leaf falls through to the default branch when the handler returns -113","branch with default leaf AND default branch, header stops there, leaf handler fails with exactly -113: second handler runs, error dropped"),
"C06-4":("#0 block ends at the FIRST NL","indefinite block whose payload contains NL: rest of payload is lexed as further data / units"),
"C06-5":("',' arm only accepts a 'data start' character after it and forgets '.'","decimal starting with '.' at parameter position >= 2 (TWO 1,.5)"),
"C06-6":("definite block payload skipped with nth(len.saturating_sub(1))","empty block directly followed by ',' or ';'"),
"C10-4":("terminator tied to context.mav |= !response.is_empty()","non-query message executed with MAV set (same controller has an unread response): lone NL written"),
"C10-5":("message_end skips the terminator if the buffer already ends in NL","last datum of the last query is a block/str whose payload ends in 0x0A"),
"C10-6":("data separator lost between code and message for errors with extended text","an Error carrying extended text written as response data"),
"C11-4":("ResponseUnit::header assigns the ':' push result unconditionally","compound response header, capacity too small for the first mnemonic but large enough for the rest: overflow swallowed"),
"C11-5":("ArrayVec formatter skips the terminator when the last byte is NL (Vec formatter unchanged)","block payload ending in NL as last datum: fixed and growable buffers disagree / overflow not reported"),
"C11-6":("ArrayVec<T,N> list response merges 'first element overflowed' with 'list empty'","ArrayVec list as response data, exhaustion on its first element: -300 instead of -225"),
"C12-4":("overflow marker written in place keeps the extended text (variant of C12-1)","overflow while the newest entry carries extended text"),
"C12-5":("Vec queue silently drops pushes of NoError","an error with code 0 pushed on the Vec queue"),
"C12-6":("overflow branch uses slice pattern [_, .., last]","capacity exactly 1"),
"C13-4":("message_start/message_end hoisted into run() (variant of C13-3)","bounded formatter failing exactly at the terminator"),
"C13-5":("*TST? reports a failing self test to handle_error as well","device self test fails: successful message queues an error"),
"C13-6":("SYST:ERR:ALL? rewritten as 'read until No error'","an error with code 0 queued behind another item: ALL? stops there and leaves the rest"),
"C14-4":("generated get_error has an early exit with the half-open range -800..0","lookup of code 0"),
"C14-5":("ArrayVec formatter pushes ';' and NL through a conversion that yields -321","buffer exactly full at a unit boundary / terminator"),
"C14-6":("infinite float intermediate mapped to -123 Exponent too large","integer parameter written as 1e39 / 1e309"),
"C15-4":("set_condition_bits returns early when ANY masked bit is already set","set_condition_bits with a multi-bit mask partly overlapping the current condition"),
"C15-5":("preset() clears the condition through set_condition()","non-zero NTR filter, filtered condition bit 1, STATus:PRESet: event latched by PRESet"),
"C15-6":("set_condition returns early (without storing) when no changed bit passes a filter","PTR no longer all ones and an update changing only unfiltered bits"),
"C16-4":("*CLS clears context.mav","*CLS;*STB? in one message with MAV set"),
"C16-5":("default IEEE4882::stb() derives MSS from ESE instead of SRE","a device that does not override stb() (plain 488.2 wiring), ESB set, ESE bit 5 != SRE bit 5"),
"C16-6":("float fallback rejects value >= MAX (patch rebased onto the tree after fix d721bc8)","*ESE 255.0 / *SRE 2.55E2 (exactly the maximum in NR2/NR3 spelling)"),
# ---- third wave ("deeply hidden and indirect")
"C01-7":("mnemonic_match compares numeric suffixes by value in a u16 accumulator","header whose letters match a node and whose numeric suffix is >= 65536 (OUTP70000?): multiply overflow, debug profile"),
"C01-8":("Amplitude: ends_with_ignore_ascii rewritten with rev().zip()","Amplitude<_> conversion of a suffix that is a proper tail of PK/PP/RMS (1 S, 250ms, 1 K): slice panic in both profiles"),
"C01-9":("next_optional_token trusts the tokenizer after a separator (variant of C01-1/C01-4)","',*CLS' in second or later parameter position with a typed pull"),
"C02-7":("in_common set in read_mnemonic, reset at ';' dropped","leading-colon unit directly after a common-command unit"),
"C02-8":("numeric suffixes compared by value through lexical_core::parse::<u8>","suffix >= 256 aliases suffix-256 (CHAN384 = CHANnel128); CHANnel300 unreachable in short form"),
"C02-9":("Branch![name => handler; ...] names the implicit default leaf after its parent","only trees built with that macro arm: CONF:CONF? invokes the branch handler instead of -113"),
"C04-7":("in_data reset moved to the plain-mnemonic arm (common headers never reset it)","datum in an earlier unit, later COMMON-command unit with a leading comma (TST 1;*ESE ,5)"),
"C04-8":("shared skip_while() helper returns the run length as u8","mnemonic / character datum / suffix of 256..268 characters accepted"),
"C04-9":("Node::run strips trailing NUL bytes before lexing","definite block as very last element whose payload ends in 0x00, no terminator"),
"C05-7":("merged list formatting helper keeps only the last element's result","list response data (Vec/ArrayVec) where a non-last element fails to format and the last one succeeds"),
"C05-8":("next_optional_token uses Peekable::next_if with a predicate that also accepts Err items","a handler that tolerates a failing pull: the lexical error is consumed and the message succeeds"),
"C05-9":("default leaf falls through to the default branch on -113 (variant of C05-6)","branch with default leaf and default branch, header stops there, leaf fails with -113"),
"C06-7":("Node::run trims trailing ASCII white space from the message","block as very last element whose payload ends in a white-space byte / indefinite block loses its NL"),
"C06-8":("skip_ws_to_separator rewritten with position(): trailing white space at end of input not consumed","last element not a plain number, followed by CR NL / blank before NL / trailing blank: -102 after the handler ran"),
"C06-9":("next_optional_data: conversion failure of a present element mapped to 'absent'","optional typed parameter whose element has the wrong type: dropped silently, message succeeds"),
"C10-7":("message_end is a no-op when the buffer already ends in NL (variant of C10-5)","last datum of the last query is a block ending in 0x0A"),
"C10-8":("dispatch retry through the default branch after the default leaf returned -113","event-only default leaf + queryable default branch, query at a non-first position: ';;' in the response (the unmodified library rejects the message)"),
"C10-9":("ResponseUnit::finish() resets the unit state","a handler calling finish() before its last data()"),
"C11-7":("header() forgets an overflow (variant of C11-4)","compound response header at a capacity where only the first mnemonic does not fit"),
"C11-8":("Auto conversion compares ONCE via to_ascii_uppercase() (allocates)","Auto parameter given character data other than ON/OFF"),
"C11-9":("default message_start() clears the buffer; Vec inherits it, ArrayVec keeps its no-op","a response buffer reused uncleared for a second message: fixed and growable buffers disagree"),
"C12-7":("'overflow already on record' check looks at every entry, ignores extended text","overflow, partial pop, refill, overflow again; or an application-raised -350 in an older slot"),
"C12-8":("SYST:ERR? puts the popped item back (at the tail) when the response cannot be produced","failing SYST:ERR? response with more items queued"),
"C12-9":("SYST:ERR:ALL? treats a queued 'No error' as end of queue (variant of C13-6)","code-0 item behind another item, read with ALL?"),
"C13-7":("in_common reset moved (variant of C02-5)","*OPC;:SYST:ERR?"),
"C13-8":("both shipped queues remove the front entry with swap_remove/swap_pop","library queue type with >= 3 unread items"),
"C13-9":("Error::esr_mask (not ErrorCode::esr_mask) maps every custom error to bit 3","handler-raised custom error numbered in a non-device class"),
"C14-7":("push_error takes the ESR mask from what ended up in the queue","bounded queue completely full, then a non-device-specific error: bit 3 instead of its class bit"),
"C14-8":("ArrayVec formatter: ';' pushed with a -321 conversion (variant of C14-5)","earlier responses fill the fixed buffer exactly when the next unit starts"),
"C14-9":("'#' arm reads the element first: its own error wins over the header error","overflowing non-decimal literal in header position: -222 instead of a command error"),
"C15-7":("set_condition_bits early return (variant of C15-4)","multi-bit mask partly overlapping the condition"),
"C15-8":("float fallback rejects value >= MAX","STAT:OPER:PTR 6.5535E4 / 65535.0"),
"C15-9":("12-character limit: '>' became '>=' in read_mnemonic","the long form QUESTIONABLE (exactly 12 characters)"),
"C16-7":("message_end hoisted after the hook (variant of C13-3)","fixed buffer failing exactly at the terminator of *STB? etc."),
"C16-8":("ErrorCode::esr_mask maps every Custom to bit 3","device-defined event numbered in another class pushed through push_error"),
"C16-9":("*CLS clears context.mav (variant of C16-4)","*CLS;*STB? with MAV set"),
# ---- fourth wave ("what a seeded random simulator is unlikely to generate or observe")
"C01-10":("next_optional_token hands out any Ok token after a separator (variant of C01-1/4/9)","',*RST' after a datum with >= 2 typed pulls"),
"C01-11":("esr_mask rewritten with '-code / 100'","error number -32768 (i16::MIN): negate overflow, debug profile only"),
"C01-12":("Branch arm 'tokenizer shouldn't emit anything else' replaced by parser_unreachable!()","expression glued to a BRANCH mnemonic without white space (SYST(@1))"),
"C02-10":("Node::default_branch(..) constructor fills in default: false","trees built with the public const fn constructors instead of struct literals"),
"C02-11":("mnemonic_compare: '_' in the optional tail no longer optional","node name with '_' in its lower-case tail addressed by its short form"),
"C02-12":("'?' look-ahead accepts only SPACE, ';' and NL","query mark followed by TAB or CR (MEAS:VOLT?<TAB>10, ...?\\r\\n)"),
"C04-10":("character-data length check after the loop with a u8 counter","character datum of >= 256 characters: panic (debug) / accepted at 256..268 (release)"),
"C04-11":("#0 block accepts CR NL (variant of C04-6)","indefinite block payload ending in 0x0D"),
"C04-12":("from_byte_iter initialises in_data = !in_header","the public Tokenizer::new_params entry point with data starting with ','"),
"C05-10":("three length loops folded into one helper with 'len as u8'","a token of 256..268 characters: error not raised, later units run"),
"C05-11":("header() overwrites a latched failure (variant of C05-5/C11-4)","two header() calls, bounded buffer between first and later header length"),
"C05-12":("Node::exec consults handler.meta() before dispatching","a handler whose meta() hint is NoQuery/QueryOnly but which implements the other form"),
"C06-10":("run() strips trailing NULs when the last non-NUL byte is NL","block as last element, no terminator, payload ending in 0A 00.."),
"C06-11":("#0 block accepts CR NL (variant)","indefinite block payload ending in 0x0D"),
"C06-12":("separator arm calls next_optional_token instead of next_token","message ending right after a ',' and a further OPTIONAL pull: reported absent, message accepted"),
"C10-10":("ResponseUnit flags become u8 counters","one response unit with >= 256 data: panic (debug) / missing ',' (release)"),
"C10-11":("formatters skip ';' after a byte that looks like a terminator","unit ending in a block whose last payload byte is NL, followed by another query"),
"C10-12":("list formatting helper decides on ',' by buffer growth","list response data whose leading item formats to zero bytes"),
"C11-10":("ArrayVec message_start clears the buffer (Vec does not)","fixed buffer reused without clear while holding an unread response"),
"C11-11":("suffix length check after the loop with a u8 counter","suffix of >= 256 characters: panic in debug, accepted in release"),
"C11-12":("Error response data limits description+info to 255 characters with an unchecked subtraction","custom error description of >= 255 bytes with extended text, read through SYST:ERR?"),
"C12-10":("'already marked' shortcut compares the newest entry by code","full queue whose newest entry is a user error numbered -350 with its own text"),
"C12-11":("the make-room pop moved into a debug_assert!","any overflow of the bounded queue in a build without debug assertions"),
"C12-12":("SYST:ERR:COUNt? formats the length through u16","more than 65535 unread items"),
"C13-10":("Error response data hand-written: quotes in the description no longer doubled","custom error whose description contains a double quote"),
"C13-11":("*TST? reports a failing self test to the error hook (variant of C13-5)","device self test fails"),
"C13-12":("message_start()? moved in front of the hook block","a formatter that fails in message_start"),
"C14-10":("non-finite float intermediate mapped to InvalidExponent => -120","integer parameter 1E39 / 1E309"),
"C14-11":("negative channel dimension in tuple conversions reported as -171","(@-1!2) converted to (usize,usize)"),
"C14-12":("NumericBuilder::finish: UP/DOWN reported as -148","numeric_value UP/DOWN resolved with finish()"),
"C15-10":("public alias StatQuesNTransitionCommand = PTransitionCommand<Questionable>","a STATus tree built by hand from the documented aliases"),
"C15-11":("set_condition_bits early return (variant of C15-4/7)","multi-bit mask partly overlapping the condition"),
"C15-12":("scpi_register!: name typo PTRansiton","the long form PTRansition"),
"C16-10":("ENABle stores value & 0x7FFF and get_summary drops its own mask","raw enable field / bit 15 (caught through the stored register value)"),
"C16-11":("run_tokens sets context.mav = true after writing a response","the same Context reused on an interface that never reports MAV"),
"C16-12":("plain IEEE4882::stb(): MSS from 'esb & sre'","a device that keeps the trait's default stb(), event bits other than 5"),
}
results={}
for f in glob.glob(f"{HERE}/seeded/results.*.tsv"):
    pass
for d in sorted(glob.glob(f"{HERE}/seeded/C*-*")):
    sid=os.path.basename(d)
    prop=sid.split('-')[0]
    val=json.load(open(f"{d}/validation.json")) if os.path.exists(f"{d}/validation.json") else {}
    det={}
    for f in sorted(glob.glob(f"{d}/detect.*.txt")):
        tier=os.path.basename(f).split('.')[1]
        txt=open(f).read()
        m=re.search(r"invariant=(\S+) signature=(.+?)(?: step| tier|\n)", txt)
        det[tier]={"caught": "VIOLATION property=" in txt, "invariant": m.group(1) if m else None, "signature": m.group(2) if m else None}
    what,needs=INFO.get(sid,("",""))
    meta={
      "id": sid, "breaks_property": prop, "change": what, "needs_to_manifest": needs,
      "written_by": "independent sub-agent given only the property text and its own scratch worktree (nothing from /verif)",
      "confirmed_in_scratch_worktree": {
         "how": "tools/validate_seeded.sh: git worktree of /repo HEAD under /tmp; demo copied to "+val.get("demo_dest","?")+"; `"+val.get("demo_cmd","?")+"` on the clean tree, then with patch.diff applied, then `cargo test --workspace --offline` with the patch",
         "demo_on_unmodified_tree": "pass" if val.get("demo_on_clean_tree_rc")==0 else "FAIL",
         "demo_with_change": "fails (exit %s)"%val.get("demo_with_patch_rc") if val.get("demo_with_patch_rc") not in (0,None) else "passes?!",
         "existing_suite_with_change": "passes (%s passed/failed)"%val.get("suite_passed_failed") if val.get("suite_with_patch_rc")==0 else "FAILS",
      },
      "checks_run": {"how": "tools/run_seeded.sh: git -C /repo apply patch.diff; ./check "+prop+" <tier>; git -C /repo checkout -- .", "result": det},
    }
    json.dump(meta, open(f"{d}/meta.json","w"), indent=1)
rows=[]
for d in sorted(glob.glob(f"{HERE}/seeded/C*-*")):
    m=json.load(open(f"{d}/meta.json"))
    r=m["checks_run"]["result"]
    def cell(t):
        x=r.get(t)
        if not x: return "not run"
        return (str(x["invariant"])+" / "+str(x["signature"])) if x["caught"] else "**missed**"
    first = cell('baseline') if 'baseline' in r else ''
    rows.append(f"| {m['id']} | {m['breaks_property']} | {m['change']} | {m['needs_to_manifest']} | {first} | {cell('quick')} |")
open(f"{HERE}/seeded/RESULTS.md","w").write("# Seeded changes and the checks that catch them\n\nGenerated by tools/mkmeta.py from seeded/*/validation.json and seeded/*/detect.*.txt.\n\n| id | property | change | needs to manifest | first run, before strengthening (second wave only) | final quick check (invariant / signature) |\n|---|---|---|---|---|---|\n"+"\n".join(rows)+"\n")
print("meta written for", len(rows))
