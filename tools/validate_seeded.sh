#!/usr/bin/env bash
# Confirms, in a scratch worktree outside /repo and /verif, for every /verif/seeded/<id>:
#  (1) demo passes on the unmodified tree, (2) with the patch the full suite passes,
#  (3) with the patch the demo fails.   Writes seeded/<id>/validation.json
set -u
HERE="$(cd "$(dirname "${BASH_SOURCE[0]}")/.." && pwd)"
WT=/tmp/val-wt
export CARGO_TARGET_DIR=/tmp/val-target
export CARGO_NET_OFFLINE=true
git -C /repo worktree remove --force $WT 2>/dev/null
git -C /repo worktree add --detach $WT HEAD -q || exit 2
trap 'git -C /repo worktree remove --force $WT; rm -rf /tmp/val-target' EXIT
ids="${@:-$(ls $HERE/seeded)}"
for id in $ids; do
  d="$HERE/seeded/$id"
  [ -f "$d/patch.diff" ] || continue
  cmd=$(grep -ho "cargo test[^\`]*--test demo[^\`]*" $d/notes.md | head -1)
  dest=$(grep -ho "scpi\(-contrib\)\?/tests/demo.rs" $d/notes.md | head -1)
  cd $WT && git checkout -q -- . && git clean -fdq
  cp "$d/demo.rs" "$WT/$dest"
  (cd $WT && $cmd) > /tmp/val-clean.log 2>&1; clean_rc=$?
  if ! git apply "$d/patch.diff"; then echo "{\"id\":\"$id\",\"error\":\"patch does not apply\"}" > $d/validation.json; continue; fi
  (cd $WT && $cmd) > /tmp/val-mut.log 2>&1; mut_rc=$?
  rm -f "$WT/$dest"
  (cd $WT && cargo test --workspace --offline) > /tmp/val-suite.log 2>&1; suite_rc=$?
  passed=$(grep -E "^test result" /tmp/val-suite.log | awk '{p+=$4; f+=$6} END {print p" "f}')
  echo "{\"id\":\"$id\",\"demo_cmd\":\"$cmd\",\"demo_dest\":\"$dest\",\"demo_on_clean_tree_rc\":$clean_rc,\"demo_with_patch_rc\":$mut_rc,\"suite_with_patch_rc\":$suite_rc,\"suite_passed_failed\":\"$passed\"}" > $d/validation.json
  echo "$id clean=$clean_rc mutant=$mut_rc suite=$suite_rc ($passed)"
done
