#!/usr/bin/env bash
# False-alarm test: applies each property-PRESERVING change in /verif/benign/<id>/patch.diff to /repo,
# runs every quick check, undoes it. Every check must exit 0, except the checks of ANOTHER property listed for
# that change in benign/expected_alarms.tsv (the change violates that other property). Results: benign/results.tsv
set -u
HERE="$(cd "$(dirname "${BASH_SOURCE[0]}")/.." && pwd)"
ids="${@:-$(ls -d $HERE/benign/C*-* | xargs -n1 basename)}"
if [ -n "$(git -C /repo status --porcelain --untracked-files=no)" ]; then echo "/repo not clean" >&2; exit 2; fi
trap 'git -C /repo checkout -- . ' EXIT
for id in $ids; do
  d="$HERE/benign/$id"
  git -C /repo checkout -- .
  if ! git -C /repo apply "$d/patch.diff"; then echo "$id patch-failed"; continue; fi
  alarms=""
  for p in C01 C02 C04 C05 C06 C10 C11 C12 C13 C14 C15 C16; do
    ( cd $HERE && ./check $p quick ) > "$d/check.$p.txt" 2>&1; rc=$?
    if [ $rc -ne 0 ]; then alarms="$alarms $p(rc=$rc:$(grep -m1 -o 'invariant=[^ ]* signature=[^ ]*' "$d/check.$p.txt"))"; else rm -f "$d/check.$p.txt"; fi
  done
  git -C /repo checkout -- .
  exp=$(grep -P "^$id\t" "$HERE/benign/expected_alarms.tsv" | cut -f2)
  verdict=""
  if [ -n "$alarms" ]; then
    verdict="UNEXPECTED"
    if [ -n "$exp" ]; then
      verdict="expected ($exp may alarm)"
      for a in $(echo "$alarms" | grep -o 'C[0-9][0-9](rc' | cut -c1-3); do pa="$a"; case ",$exp," in *",$pa,"*) ;; *) verdict="UNEXPECTED";; esac; done
    fi
  fi
  echo -e "$id\t${alarms:-all 12 checks exit 0}\t$verdict" | tee -a "$HERE/benign/results.tsv"
done
