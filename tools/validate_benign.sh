#!/usr/bin/env bash
# Confirms, in a scratch worktree outside /repo and /verif, for every /verif/benign/<id>:
#  (1) demo FAILS on the unmodified tree (the change is observable), (2) with the patch the demo passes,
#  (3) with the patch the full unedited suite passes.   Writes benign/<id>/validation.json
set -u
HERE="$(cd "$(dirname "${BASH_SOURCE[0]}")/.." && pwd)"
WT=/tmp/valb-wt
export CARGO_TARGET_DIR=/tmp/valb-target
export CARGO_NET_OFFLINE=true
git -C /repo worktree remove --force $WT 2>/dev/null
git -C /repo worktree add --detach $WT HEAD -q || exit 2
trap 'git -C /repo worktree remove --force $WT; rm -rf /tmp/valb-target' EXIT
ids="${@:-$(ls -d $HERE/benign/C*-* | xargs -n1 basename)}"
for id in $ids; do
  d="$HERE/benign/$id"
  [ -f "$d/patch.diff" ] || continue
  if grep -q "scpi_contrib" "$d/demo.rs"; then
    dest=scpi-contrib/tests/demo_b.rs
    cmd="cargo test --offline -p scpi-contrib -p scpi --features scpi-contrib/alloc,scpi/verif-hooks,scpi/arrayvec --test demo_b"
  else
    dest=scpi/tests/demo_b.rs
    cmd="cargo test --offline -p scpi --features arrayvec,verif-hooks --test demo_b"
  fi
  cd $WT && git checkout -q -- . && git clean -fdq
  cp "$d/demo.rs" "$WT/$dest"
  (cd $WT && $cmd) > /tmp/valb-clean.log 2>&1; clean_rc=$?
  if ! git apply "$d/patch.diff"; then echo "{\"id\":\"$id\",\"error\":\"patch does not apply\"}" > $d/validation.json; continue; fi
  (cd $WT && $cmd) > /tmp/valb-pat.log 2>&1; pat_rc=$?
  [ $pat_rc -ne 0 ] && cp /tmp/valb-pat.log $d/validation.demo_with_patch.log
  grep -q "could not compile" /tmp/valb-clean.log && cp /tmp/valb-clean.log $d/validation.clean_compile_error.log
  rm -f "$WT/$dest"
  (cd $WT && cargo test --workspace --offline) > /tmp/valb-suite.log 2>&1; suite_rc=$?
  passed=$(grep -E "^test result" /tmp/valb-suite.log | awk '{p+=$4; f+=$6} END {print p" "f}')
  echo "{\"id\":\"$id\",\"demo_cmd\":\"$cmd\",\"demo_dest\":\"$dest\",\"demo_on_clean_tree_rc\":$clean_rc,\"demo_with_patch_rc\":$pat_rc,\"suite_with_patch_rc\":$suite_rc,\"suite_passed_failed\":\"$passed\"}" > $d/validation.json
  echo "$id clean=$clean_rc patched=$pat_rc suite=$suite_rc ($passed)"
done
