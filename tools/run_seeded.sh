#!/usr/bin/env bash
# Applies each seeded change to /repo, runs the owning property's check (default: quick), undoes it.
# usage: run_seeded.sh [tier] [ids...]      results: seeded/<id>/detect.<tier>.txt and seeded/results.<tier>.tsv
set -u
HERE="$(cd "$(dirname "${BASH_SOURCE[0]}")/.." && pwd)"
TIER="${1:-quick}"; shift || true
ids="${@:-$(ls -d $HERE/seeded/C*-* | xargs -n1 basename)}"
if [ -n "$(git -C /repo status --porcelain --untracked-files=no)" ]; then echo "/repo not clean" >&2; exit 2; fi
trap 'git -C /repo checkout -- . ' EXIT
for id in $ids; do
  d="$HERE/seeded/$id"; prop="${CHECK_PROP:-${id%-*}}"
  git -C /repo checkout -- .
  if ! git -C /repo apply "$d/patch.diff"; then echo "$id patch-failed"; continue; fi
  out="$d/detect.$TIER.txt"; [ -n "${CHECK_PROP:-}" ] && out="$d/detect.cross-$CHECK_PROP.txt"
  ( cd $HERE && ./check $prop $TIER ) > "$out" 2>&1; rc=$?
  git -C /repo checkout -- .
  viol=$(grep -m1 "invariant=" "$out" | sed 's/^ *//')
  echo -e "$id\t$prop\trc=$rc\t$viol" | tee -a "$HERE/seeded/results.$TIER.tsv.new"
done
if [ -z "${CHECK_PROP:-}" ]; then mv "$HERE/seeded/results.$TIER.tsv.new" "$HERE/seeded/results.$TIER.tsv" 2>/dev/null; else cat "$HERE/seeded/results.$TIER.tsv.new" >> "$HERE/seeded/results.cross.tsv"; rm -f "$HERE/seeded/results.$TIER.tsv.new"; fi
# restore evidence for the unchanged tree is the caller's job (re-run the checks)
