#!/usr/bin/env python3
"""Regenerates /verif/MANIFEST.json. Edit the tables below, then run."""
import json, os, sys
HERE = os.path.dirname(os.path.dirname(os.path.abspath(__file__)))

BUILT = sys.argv[1:]  # ids of properties whose checks exist; default: all claimed
CLAIMED = {
 "C01": ("exploration", "5", "Seeded simulation: grammar-generated messages damaged in flight by a transport stub (truncate/flip/delete/insert/replace/splice/garbage) are executed against random trees whose handlers pull 0..n+2 parameters through every TryFrom<Token> conversion and drive list iterators to their first error; every run is checked for panic, the library's internal-parser-error code, lexer progress and termination (watchdog), in a debug-assertion+overflow-check profile and in release, plus a Miri pass over a bounded slice for the unsafe float->int cast. Sampling of the corruption neighbourhood of the grammar, not all byte strings.",
         "deterministic simulation with transport fault injection (seeded search) + Miri slice"),
 "C02": ("exploration", "5", "Seeded simulation: random trees (default leaves/branches, anonymous default leaf, suffixed siblings, same names in different scopes) x message histories mixing absolute, relative and common headers in every spelling; the handler-invocation log of the real dispatcher is compared unit by unit with a resolver written from the property statement, including -113 with no handler, and bounded recovery: the first unit after any failed, truncated or garbage predecessor resolves from the root. Also chains of 30..260 consecutive relative units in one message.",
         "deterministic simulation, reference-model lock-step over message histories"),
 "C04": ("exploration", "5", "Seeded simulation of the fault-shaped half of the property: end-to-end element integrity (what the controller put on the wire is what recording handlers receive, type and exact bytes) over all seven data types with separators inside containers and every white-space placement the author is sure of, plus a catalogue of 37 IEEE 488.2 syntax faults injected at every element position, which must yield a command error and stop execution. The 'exhaustive up to bounded length' part of the quantifier is not addressed.",
         "deterministic simulation with catalogued syntax-fault injection"),
 "C05": ("fault_enumeration", "5", "For each sampled well-formed message every failure position x failure kind is injected (handler error at each phase, under/over-consumption, syntax fault in header and parameters, undefined header, every formatter capacity, every formatter write-call index transient and persistent via the verif-hooks formatter); handler log, returned error and error-hook log are checked against 'first error aborts, reported exactly once'.",
         "fault enumeration over seeded base messages in a deterministic simulator"),
 "C06": ("exploration", "5", "Seeded simulation: handlers are simulator actors whose pull pattern (required/optional, count 0..n+2) is scheduled per unit; every (supplied, consumed) arity pair at first/middle/last unit and every unit ending; every datum is unique so leakage across ';' is detectable. One unit in about a hundred is a long list of 254..513 elements pulled to the end.",
         "deterministic simulation, scheduled handler behaviour"),
 "C10": ("exploration", "5", "Seeded simulation: successful messages with any interleaving of query/non-query units, 1-5 data of mixed types, response headers, every message ending, both shipped formatters; the output buffer is compared byte-exactly with a framing model built from stand-alone formatted data. Response data include values at the edges of their types and signed non-decimal forms.",
         "deterministic simulation, framing reference model"),
 "C11": ("fault_enumeration", "5", "For each sampled message the real ArrayVec<u8,CAP> formatter is run at EVERY capacity 0..=len+1 (exhaustion at every write) and compared with the growable-buffer reference; a counting global allocator armed around Node::run (harness callbacks excluded) must read 0 in the alloc-free configuration.",
         "fault enumeration (all capacities) + allocation counting in a deterministic simulator"),
 "C12": ("exploration", "5", "Seeded producer/consumer histories on both shipped queue implementations (capacities 1,2,3,4,5,8,16,32 and Vec), result and full contents compared with a bounded-FIFO model after every operation. One run in 40 begins with 255..700 insertions of one identical error.",
         "deterministic simulation, reference-model lock-step over operation histories"),
 "C13": ("exploration", "5", "Seeded histories on the full instrument (real mandated tree + random app sub-tree, 1-3 controllers) mixing valid messages, failures of every kind and the queue/ESR queries in any position; queue contents, ESR and responses compared with the status model after every message. Backlog runs: 63..300 and >65535 unread items, then COUNt?/ALL?/NEXT?.",
         "deterministic simulation with fault injection, status reference model"),
 "C14": ("fault_enumeration", "5", "The error code is swept as a fault parameter over all 65536 values through the real path run -> handle_error -> push_error -> *ESR? / SYST:ERR?; in addition the class of every library-raised error is monitored in seeded runs with catalogued faults.",
         "exhaustive sweep of the injected error code + class monitor in simulation"),
 "C15": ("exploration", "5", "Seeded interleavings of a hardware actor (condition changes, also inside a message) and a controller issuing STATus commands on both register sets, compared with a per-bit latch model after every step.",
         "deterministic simulation, hardware/controller interleavings vs latch model"),
 "C16": ("exploration", "5", "Seeded histories of common commands, STATus/SYSTem commands, failing messages, hardware events, self-test results and read/unread responses over 1-3 controllers; *STB? and all registers compared with the 488.2 status model after every message. One run in 24 contains a device-side burst of 255..768 errors followed by *STB?.",
         "deterministic simulation, status-byte reference model, MAV from simulated transport"),
}
NOTES = {
 "C01": "Trusted: harness generators/renderer; catch_unwind sees panics only (aborts would kill the run and be reported as harness failure); Miri slice is small. Decides only traffic the simulated controllers+transport can produce.",
 "C02": "Trusted: the resolver/matcher written from the statement (sim/src/tree.rs); trees stay inside the documented preconditions (<=1 default leaf and <=1 default branch per branch, visible names pairwise non-matching, <=12 chars).",
 "C04": "Trusted: the element renderer and the fault catalogue (each entry is a 488.2 violation by the author's reading; placements whose 488.2 status could not be settled offline are not generated: leading white space, white space inside mantissa/exponent).",
 "C05": "Trusted: SimHandler logging; formatter write-call faults go through the verif-hooks constructor (a user cannot implement Formatter today). Open by the statement and accepted either way: whether the handler of the unit at which the buffer fails is entered, which of two faults of one unit is reported (DESIGN.md section 15).",
 "C06": "Trusted: element renderer; raw-token pulls, plus typed pulls only where the conversion can never succeed for the element's type (value-level conversion is C07/C08, n/a).",
 "C10": "Trusted: the framing model; the text of one datum is rendered by the harness for string and error-item data and taken from the library's own stand-alone formatting for the other types (C10 is about framing, not value text). Judged on messages observed to succeed; where the statement is silent (separator of a query without output, prefilled buffer) alternative predictions are accepted (DESIGN.md section 15).",
 "C11": "Trusted: the counting allocator (thread-local, armed only around library code); dispatch table for CAP in 0..=200.",
 "C12": "Trusted: the FIFO model (sim/src/model.rs).",
 "C13": "Trusted: status model; whether/where a message fails is judged by C02/C04/C05/C06, here state is compared relative to the returned result. Open by the statement and accepted either way (alternative predictions, DESIGN.md section 15): what an undelivered read-and-clear query consumed, whether *OPC leaves a -800 item, whether units in front of a lexical fault ran.",
 "C14": "Trusted: class table written from the statement.",
 "C15": "Trusted: latch model; PRESet/condition ambiguity resolved by adopting the observed condition value.",
 "C16": "Trusted: status-byte model; 'summary' accepted under either reading, consistently per run.",
}
NA = {
 "C03": "Mnemonic matching is a pure predicate of (definition, candidate) with no state, schedule, fault or history; only input enumeration decides it, which is not deterministic simulation (C02's workload exercises it incidentally).",
 "C07": "Literal -> integer conversion is a pure function of the literal and target type; nothing for a scheduler or fault injector to vary.",
 "C08": "Literal/keyword -> float/bool conversion is a pure function of one data element.",
 "C09": "Value -> response text is a pure function of the value; round-trip fidelity has no history or fault dimension.",
 "C17": "NumericValue parsing and NumericBuilder::finish are pure functions of (element, min, max, default).",
 "C18": "Suffix -> unit scaling is a static table lookup composed with a pure float conversion.",
 "C19": "List-expression iteration is a pure function of the expression text (its only stateful aspect, cursor progress / panic freedom, is exercised under C01).",
 "C20": "derive(ScpiEnum) is a compile-time program transformer quantified over enum definitions; the simulator cannot vary the program at run time and the run-time behaviour is a pure predicate.",
}
built = BUILT or sorted(CLAIMED)
checks = []
for pid in sorted(CLAIMED):
    if pid not in built:
        continue
    cat, ref, text, tech = CLAIMED[pid]
    checks.append({
        "property_id": pid,
        "quick_cmd": f"./check {pid} quick",
        "thorough_cmd": f"./check {pid} thorough",
        "evidence_file": f"/verif/evidence/{pid}.json",
        "replay_cmd_template": "./check --replay {path}",
        "engine": "scpi-sim",
        "level_claimed": {"category": cat, "text": text, "design_ref": f"DESIGN.md section {ref} ({pid})"},
        "level_note": NOTES[pid],
        "technique": tech,
    })
na = [{"property_id": k, "reason": v} for k, v in sorted(NA.items())]
for pid in sorted(CLAIMED):
    if pid not in built:
        na.append({"property_id": pid, "reason": "check under construction in this session (designed in DESIGN.md section 5); not claimed until it runs"})
m = {
 "version": 1,
 "setup_cmd": "./check build",
 "hooks": {
   "guard": "verif-hooks",
   "enable": "cargo feature `verif-hooks` of crate scpi, switched on by /verif/sim/Cargo.toml (path dependency on /repo/scpi)",
   "baseline_off_cmd": "cd /repo && cargo test --workspace --no-fail-fast --offline",
   "source_commits": ["1554bd2"],
   "add_only": True,
 },
 "engines": [{"name": "scpi-sim", "path": "/verif/sim", "serves_properties": built,
              "kind_free_text": "hand-written deterministic simulator (Rust): seeded xoshiro256** workload/fault generator -> explicit JSON trace -> executor over the real scpi / scpi-contrib code with reference models, minimiser and fresh-process replay"}],
 "checks": checks,
 "not_applicable": sorted(na, key=lambda x: x["property_id"]),
 "notes": "Exit codes of every check: 0 held, 1 violation (VIOLATION line + replay file under /verif/replays), 2 harness error. Known findings: /verif/known_findings.json. VERIF_SEED selects the seed (default 1); budgets are run counts, not seconds.",
}
json.dump(m, open(os.path.join(HERE, "MANIFEST.json"), "w"), indent=1)
print("wrote MANIFEST.json with", len(checks), "checks,", len(na), "not applicable")
