// Generates the run-time -> const-generic dispatch for the real `ArrayVec<u8, CAP>` formatter.
use std::{env, fs, path::Path};

fn main() {
    let mut caps: Vec<usize> = (0..=200).collect();
    caps.extend_from_slice(&[256, 512, 1024, 4096]);
    let mut s = String::new();
    s.push_str("pub const ARRAY_FMT_CAPS_MAX_DENSE: usize = 200;\n");
    s.push_str("pub fn array_cap_supported(cap: usize) -> bool { matches!(cap, ");
    s.push_str(&caps.iter().map(|c| c.to_string()).collect::<Vec<_>>().join(" | "));
    s.push_str(") }\n");
    s.push_str("pub fn run_array(cap: usize, tree: &Node<'static, SimDevice>, bytes: &[u8], dev: &mut SimDevice, ctx: &mut Context, prefill: &[u8]) -> Option<(scpi::error::Result<()>, Vec<u8>)> {\n    match cap {\n");
    for c in &caps {
        s.push_str(&format!(
            "        {c} => {{ let mut f = arrayvec::ArrayVec::<u8, {c}>::new(); if f.try_extend_from_slice(prefill).is_err() {{ return None; }} let r = tree.run(bytes, dev, ctx, &mut f); let o = crate::alloc::harness(|| f.as_slice().to_vec()); Some((r, o)) }}\n"
        ));
    }
    s.push_str("        _ => None,\n    }\n}\n");
    let out = env::var("OUT_DIR").unwrap();
    fs::write(Path::new(&out).join("array_dispatch.rs"), s).unwrap();
    println!("cargo:rerun-if-changed=build.rs");
}
