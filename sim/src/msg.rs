//! Program messages as structure: deterministic rendering to bytes, the token each
//! well-formed element denotes (lexing oracle "by construction"), domain checks, and random
//! generation of elements.

use crate::rng::Rng;
use crate::types::*;

pub fn render_elem(e: &Elem, out: &mut Vec<u8>) {
    match e {
        Elem::Chr(s) => out.extend_from_slice(s.as_bytes()),
        Elem::Dec(s) => out.extend_from_slice(s.as_bytes()),
        Elem::DecSuf { num, ws, suf } => {
            out.extend_from_slice(num.as_bytes());
            out.extend_from_slice(ws.as_slice());
            out.extend_from_slice(suf.as_bytes());
        }
        Elem::NonDec { radix, digits } => {
            out.push(b'#');
            out.push(*radix as u8);
            out.extend_from_slice(digits.as_bytes());
        }
        Elem::Str { q, inner } => {
            out.push(*q as u8);
            out.extend_from_slice(inner.as_slice());
            out.push(*q as u8);
        }
        Elem::Blk { payload, pad } => {
            let len = payload.len().to_string();
            let field = format!("{}{}", "0".repeat(*pad as usize), len);
            out.push(b'#');
            out.extend_from_slice(field.len().to_string().as_bytes());
            out.extend_from_slice(field.as_bytes());
            out.extend_from_slice(payload.as_slice());
        }
        Elem::BlkIndef { payload } => {
            out.extend_from_slice(b"#0");
            out.extend_from_slice(payload.as_slice());
            out.push(b'\n');
        }
        Elem::Expr(inner) => {
            out.push(b'(');
            out.extend_from_slice(inner.as_slice());
            out.push(b')');
        }
        Elem::Raw(b) => out.extend_from_slice(b.as_slice()),
    }
}

pub fn render_unit(u: &Unit, out: &mut Vec<u8>) {
    out.extend_from_slice(u.lead.as_slice());
    if let Some((_, raw)) = &u.hfault {
        out.extend_from_slice(raw.as_slice());
    } else {
        if u.colon {
            out.push(b':');
        }
        for (i, m) in u.path.iter().enumerate() {
            if i > 0 {
                out.push(b':');
            }
            out.extend_from_slice(m.as_bytes());
        }
        if u.query {
            out.push(b'?');
        }
    }
    out.extend_from_slice(u.hsep.as_slice());
    for (i, p) in u.params.iter().enumerate() {
        if i > 0 {
            match u.psep.get(i - 1) {
                Some(s) => out.extend_from_slice(s.as_slice()),
                None => out.push(b','),
            }
        }
        render_elem(p, out);
    }
    out.extend_from_slice(u.tail.as_slice());
}

pub fn render(m: &Msg) -> Vec<u8> {
    let mut out = Vec::new();
    for (i, u) in m.units.iter().enumerate() {
        if i > 0 {
            out.push(b';');
        }
        render_unit(u, &mut out);
    }
    out.extend_from_slice(m.end.as_slice());
    out
}

pub fn apply_corruption(bytes: &mut Vec<u8>, c: &Corrupt) {
    match c {
        Corrupt::Truncate { at } => {
            if *at < bytes.len() {
                bytes.truncate(*at)
            }
        }
        Corrupt::Flip { pos, bit } => {
            if let Some(b) = bytes.get_mut(*pos) {
                *b ^= 1 << (bit % 8);
            }
        }
        Corrupt::Delete { pos } => {
            if *pos < bytes.len() {
                bytes.remove(*pos);
            }
        }
        Corrupt::Insert { pos, byte } => {
            let p = (*pos).min(bytes.len());
            bytes.insert(p, *byte);
        }
        Corrupt::Replace { pos, byte } => {
            if let Some(b) = bytes.get_mut(*pos) {
                *b = *byte;
            }
        }
        Corrupt::Splice { tail } => bytes.extend_from_slice(tail.as_slice()),
        Corrupt::Garbage { bytes: g } => {
            bytes.clear();
            bytes.extend_from_slice(g.as_slice());
        }
    }
}

/// The token a well-formed element denotes (IEEE 488.2 section 7.7 decomposition).
pub fn expected_tok(e: &Elem) -> Option<Tok> {
    Some(match e {
        Elem::Chr(s) => Tok::Chr(B::from(s.as_str())),
        Elem::Dec(s) => Tok::Dec(B::from(s.as_str())),
        Elem::DecSuf { num, suf, .. } => Tok::DecSuf(B::from(num.as_str()), B::from(suf.as_str())),
        Elem::NonDec { radix, digits } => {
            let r = match radix.to_ascii_uppercase() {
                'H' => 16,
                'Q' => 8,
                'B' => 2,
                _ => return None,
            };
            Tok::NonDec(u64::from_str_radix(digits, r).ok()?)
        }
        Elem::Str { inner, .. } => Tok::Str(inner.clone()),
        Elem::Blk { payload, .. } => Tok::Blk(payload.clone()),
        Elem::BlkIndef { payload } => Tok::Blk(payload.clone()),
        Elem::Expr(inner) => Tok::Expr(inner.clone()),
        Elem::Raw(_) => return None,
    })
}

fn is_ws(b: u8) -> bool {
    b == b' ' || b == b'\t' || b == b'\r'
}

fn all_ws(b: &B) -> bool {
    b.0.iter().all(|c| is_ws(*c))
}

fn valid_mnemonic_text(s: &str) -> bool {
    let b = s.as_bytes();
    !b.is_empty()
        && b.len() <= 12
        && b[0].is_ascii_alphabetic()
        && b.iter().all(|c| c.is_ascii_alphanumeric() || *c == b'_')
}

fn valid_dec(s: &str) -> bool {
    // [+-] digits [. digits] | [+-] . digits ; optional exponent E[+-]digits (no white space)
    let b = s.as_bytes();
    let mut i = 0;
    if i < b.len() && (b[i] == b'+' || b[i] == b'-') {
        i += 1;
    }
    let d0 = i;
    while i < b.len() && b[i].is_ascii_digit() {
        i += 1;
    }
    let lead = i > d0;
    let mut frac = false;
    if i < b.len() && b[i] == b'.' {
        i += 1;
        let f0 = i;
        while i < b.len() && b[i].is_ascii_digit() {
            i += 1;
        }
        frac = i > f0;
    }
    if !lead && !frac {
        return false;
    }
    if i < b.len() && (b[i] == b'E' || b[i] == b'e') {
        i += 1;
        if i < b.len() && (b[i] == b'+' || b[i] == b'-') {
            i += 1;
        }
        let e0 = i;
        while i < b.len() && b[i].is_ascii_digit() {
            i += 1;
        }
        if i == e0 {
            return false;
        }
    }
    i == b.len()
}

fn valid_suffix(s: &str) -> bool {
    let b = s.as_bytes();
    !b.is_empty()
        && b.len() <= 12
        && (b[0].is_ascii_alphabetic())
        && b.iter().all(|c| c.is_ascii_alphanumeric() || *c == b'-' || *c == b'/' || *c == b'.')
        // an exponent-looking suffix directly after the mantissa would be read as exponent
        && !(b[0] == b'E' || b[0] == b'e')
}

fn valid_str_inner(q: char, inner: &B) -> bool {
    // every quote char must be doubled; ASCII only
    let q = q as u8;
    let b = &inner.0;
    let mut i = 0;
    while i < b.len() {
        if !b[i].is_ascii() {
            return false;
        }
        if b[i] == q {
            if i + 1 < b.len() && b[i + 1] == q {
                i += 2;
                continue;
            }
            return false;
        }
        i += 1;
    }
    true
}

fn valid_expr_inner(inner: &B) -> bool {
    inner
        .0
        .iter()
        .all(|c| c.is_ascii() && !matches!(*c, b'"' | b'\'' | b';' | b'(' | b')'))
}

pub fn elem_well_formed(e: &Elem) -> bool {
    match e {
        Elem::Chr(s) => valid_mnemonic_text(s),
        Elem::Dec(s) => valid_dec(s),
        Elem::DecSuf { num, ws, suf } => valid_dec(num) && all_ws(ws) && valid_suffix(suf),
        Elem::NonDec { radix, digits } => {
            let r = match radix.to_ascii_uppercase() {
                'H' => 16,
                'Q' => 8,
                'B' => 2,
                _ => return false,
            };
            !digits.is_empty() && u64::from_str_radix(digits, r).is_ok() && !digits.starts_with('+')
        }
        Elem::Str { q, inner } => (*q == '"' || *q == '\'') && valid_str_inner(*q, inner),
        Elem::Blk { payload, pad } => (payload.len().to_string().len() + *pad as usize) <= 9,
        Elem::BlkIndef { .. } => true,
        Elem::Expr(inner) => valid_expr_inner(inner),
        Elem::Raw(_) => false,
    }
}

pub const ENDINGS: &[&str] = &["", "\n", " ", " \n", "\t", "\r\n", ";", ";\n", "; ", " ;", "  \n"];

/// Is the message inside the domain the structural oracles are defined on? (Used to reject
/// minimiser edits that would leave it.) Units carrying a catalogued fault are exempt from the
/// element checks of that unit.
pub fn msg_in_domain(m: &Msg) -> bool {
    if m.units.is_empty() {
        return false;
    }
    if !ENDINGS.iter().any(|e| e.as_bytes() == m.end.as_slice()) {
        return false;
    }
    let n = m.units.len();
    for (i, u) in m.units.iter().enumerate() {
        if !all_ws(&u.lead) || (i == 0 && !u.lead.is_empty()) {
            return false;
        }
        if u.hfault.is_none() {
            if u.path.is_empty() {
                return false;
            }
            let common = u.path[0].starts_with('*');
            if common {
                if u.path.len() != 1 || u.colon {
                    return false;
                }
                let body = &u.path[0][1..];
                if !valid_mnemonic_text(body) || u.path[0].len() > 12 {
                    return false;
                }
            } else if !u.path.iter().all(|p| valid_mnemonic_text(p)) {
                return false;
            }
        }
        if !all_ws(&u.hsep) {
            if u.pfault.is_none() {
                return false;
            }
        }
        if u.pfault.is_none() {
            if !u.params.is_empty() && u.hsep.is_empty() {
                return false;
            }
            if u.params.is_empty() && !u.tail.is_empty() {
                return false;
            }
            if !all_ws(&u.tail) {
                return false;
            }
            if u.psep.len() + 1 != u.params.len() && !(u.params.is_empty() && u.psep.is_empty()) {
                return false;
            }
            for s in &u.psep {
                // exactly one comma, optional white space around
                let commas = s.0.iter().filter(|c| **c == b',').count();
                if commas != 1 || !s.0.iter().all(|c| *c == b',' || is_ws(*c)) {
                    return false;
                }
            }
            for (j, e) in u.params.iter().enumerate() {
                if !elem_well_formed(e) {
                    return false;
                }
                if let Elem::BlkIndef { .. } = e {
                    // must be the very last thing of the message
                    if !(i + 1 == n && j + 1 == u.params.len() && u.tail.is_empty() && m.end.is_empty()) {
                        return false;
                    }
                }
            }
        }
    }
    true
}

// ------------------------------------------------------------------------------------------
// Random generation of well-formed elements

pub fn gen_ws(rng: &mut Rng, allow_empty: bool) -> B {
    let n = if allow_empty {
        *rng.pick(&[0usize, 0, 0, 1, 1, 2])
    } else {
        *rng.pick(&[1usize, 1, 1, 1, 2, 3])
    };
    let mut v = Vec::new();
    for _ in 0..n {
        v.push(*rng.pick(&[b' ', b' ', b' ', b'\t', b'\r']));
    }
    // never end white space with CR directly before something we do not control; keep simple
    B(v)
}

pub fn gen_psep(rng: &mut Rng) -> B {
    let mut v = gen_ws(rng, true).0;
    v.push(b',');
    v.extend_from_slice(&gen_ws(rng, true).0);
    B(v)
}

pub fn gen_chr(rng: &mut Rng, uniq: &mut u32) -> String {
    // unique-ish character data: letter + counter in base 36 + optional tail
    *uniq += 1;
    let mut s = String::new();
    s.push((b'A' + rng.below(26) as u8) as char);
    let mut n = *uniq;
    loop {
        let d = (n % 36) as u8;
        s.push(if d < 10 { (b'0' + d) as char } else { (b'a' + d - 10) as char });
        n /= 36;
        if n == 0 {
            break;
        }
    }
    let extra = rng.usize_below(4);
    for _ in 0..extra {
        if s.len() < 12 {
            s.push(*rng.pick(&['x', 'Y', '_', '7']));
        }
    }
    s
}

pub fn gen_dec(rng: &mut Rng, uniq: &mut u32) -> String {
    *uniq += 1;
    let n = *uniq;
    let sign = *rng.pick(&["", "", "+", "-"]);
    match rng.below(8) {
        0 => format!("{}{}", sign, n),
        1 => format!("{}{}.", sign, n),
        2 => format!("{}.{}", sign, n),
        3 => format!("{}{}.{}", sign, n, rng.below(1000)),
        4 => format!("{}{}E{}", sign, n, rng.range(-9, 9)),
        5 => format!("{}{}.{}e{}{}", sign, n, rng.below(100), rng.pick(&["", "+", "-"]), rng.below(20)),
        6 => format!("{}0{}", sign, n),
        _ => format!("{}.{}E+{}", sign, n, rng.below(5)),
    }
}

const SUFFIXES: &[&str] = &[
    "V", "mV", "KHZ", "S", "MS", "OHM", "DBM", "A", "W", "HZ", "V/S", "M.S-1", "PCT", "UV", "VPP", "VRMS", "DEG",
];

pub fn gen_elem(rng: &mut Rng, uniq: &mut u32, allow_indef: bool) -> Elem {
    match rng.below(if allow_indef { 9 } else { 8 }) {
        0 => Elem::Chr(gen_chr(rng, uniq)),
        1 => Elem::Dec(gen_dec(rng, uniq)),
        2 => {
            let num = gen_dec(rng, uniq);
            let mut suf = rng.pick(SUFFIXES).to_string();
            if rng.chance(1, 2) {
                suf = suf.to_ascii_lowercase();
            }
            let ws = gen_ws(rng, true);
            Elem::DecSuf { num, ws, suf }
        }
        3 => {
            *uniq += 1;
            let v: u64 = if rng.chance(1, 6) {
                rng.next_u64()
            } else {
                *uniq as u64 * 7 + rng.below(7)
            };
            let (radix, digits) = match rng.below(3) {
                0 => ('H', format!("{:X}", v)),
                1 => ('Q', format!("{:o}", v)),
                _ => ('B', format!("{:b}", v)),
            };
            // now and then more digits than 64 bits hold: leading zeros (same value) or
            // significant ones (no token can carry the value: must be refused, see
            // model::nondec_wide)
            let digits = match rng.below(16) {
                0 => {
                    let full = match radix {
                        'H' => 16,
                        'Q' => 22,
                        _ => 64,
                    };
                    let z = full + 1 + rng.usize_below(4) - digits.len().min(full);
                    format!("{}{}", "0".repeat(z), digits)
                }
                1 => {
                    let full: usize = match radix {
                        'H' => 16,
                        'Q' => 22,
                        _ => 64,
                    };
                    let mut pad = full.saturating_sub(digits.len());
                    let lead = match radix {
                        // (22 octal digits hold 66 bits: the leading digit decides - so half of
                        // the octal ones have exactly 22 digits, first digit 2..7, any digits
                        // behind it)
                        'Q' if pad > 0 && rng.chance(1, 2) => {
                            pad -= 1;
                            *rng.pick(&["2", "3", "4", "7"])
                        }
                        'Q' if rng.chance(1, 2) => {
                            // 21 arbitrary digits behind the leading one
                            let tail: String = (0..21).map(|_| char::from(b'0' + rng.below(8) as u8)).collect();
                            let lead = *rng.pick(&["2", "3", "5", "7"]);
                            let radix = if rng.chance(1, 2) { 'q' } else { 'Q' };
                            return Elem::NonDec { radix, digits: format!("{}{}", lead, tail) };
                        }
                        'Q' => *rng.pick(&["2", "7", "10"]),
                        'H' => *rng.pick(&["1", "F", "10"]),
                        _ => *rng.pick(&["1", "10"]),
                    };
                    format!("{}{}{}", lead, "0".repeat(pad), digits)
                }
                _ => digits,
            };
            let radix = if rng.chance(1, 2) { radix.to_ascii_lowercase() } else { radix };
            let digits = if rng.chance(1, 2) { digits.to_ascii_lowercase() } else { digits };
            Elem::NonDec { radix, digits }
        }
        4 => {
            let q = *rng.pick(&['"', '\'']);
            *uniq += 1;
            let mut inner: Vec<u8> = format!("s{}", uniq).into_bytes();
            let n = *rng.pick(&[0usize, 1, 3, 8, 20]);
            for _ in 0..n {
                let c = *rng.pick(&[
                    b';', b',', b':', b' ', b'\'', b'"', b'\n', b'(', b')', b'#', b'?', b'*', b'a', b'Z', b'0', b'\t', 0x00, 0x7f,
                ]);
                if c == q as u8 {
                    inner.push(c);
                    inner.push(c);
                } else {
                    inner.push(c);
                }
            }
            Elem::Str { q, inner: B(inner) }
        }
        5 | 6 => {
            *uniq += 1;
            let len = *rng.pick(&[0usize, 1, 2, 5, 9, 10, 11, 17, 99, 100, 101, 300]);
            let mut payload: Vec<u8> = format!("b{}", uniq).into_bytes();
            payload.truncate(len);
            while payload.len() < len {
                payload.push(*rng.pick(&[
                    b';', b',', b'\n', b'"', b'\'', b'#', 0x00, 0xff, 0x80, b'a', b' ', b'(', b')', b':', b'\r',
                ]));
            }
            if len > 0 && rng.chance(1, 4) {
                let l = payload.len();
                payload[l - 1] = *rng.pick(&[b'\r', b'\n', b';', b',', b' ', 0x00]);
                if l >= 2 && rng.chance(1, 3) {
                    payload[l - 2] = *rng.pick(&[b'\n', b'\r', b' ', 0x00]);
                }
            }
            let pad = if rng.chance(1, 5) { rng.below(3) as u8 } else { 0 };
            Elem::Blk { payload: B(payload), pad }
        }
        7 => {
            *uniq += 1;
            let mut inner: Vec<u8> = if rng.chance(1, 2) {
                format!("@{}", uniq).into_bytes()
            } else {
                format!("{}", uniq).into_bytes()
            };
            let n = *rng.pick(&[0usize, 1, 3, 6]);
            for _ in 0..n {
                inner.push(*rng.pick(&[b',', b':', b'!', b'1', b'2', b' ', b'-', b'+', b'a', b'.', b'@', b'#', b'?']));
            }
            Elem::Expr(B(inner))
        }
        _ => {
            *uniq += 1;
            let mut payload: Vec<u8> = format!("i{}", uniq).into_bytes();
            let n = rng.usize_below(12);
            for _ in 0..n {
                payload.push(*rng.pick(&[b';', b',', b'\n', b'"', 0xff, b'a', b' ', b'\r']));
            }
            if rng.chance(1, 3) {
                payload.push(*rng.pick(&[b'\r', b'\n', b';', b' ']));
            }
            Elem::BlkIndef { payload: B(payload) }
        }
    }
}

// ------------------------------------------------------------------------------------------
// Strict recogniser of the generator's own language. Used as a ONE-SIDED oracle for messages
// damaged in flight: if the damaged bytes are still a member of this (deliberately narrow,
// certainly well-formed) language, their decomposition is known and the structural oracles
// apply; otherwise nothing is asserted beyond the universal invariants.

struct Cur<'a> {
    b: &'a [u8],
    i: usize,
}

impl<'a> Cur<'a> {
    fn peek(&self) -> Option<u8> {
        self.b.get(self.i).copied()
    }
    fn eat(&mut self, c: u8) -> bool {
        if self.peek() == Some(c) {
            self.i += 1;
            true
        } else {
            false
        }
    }
    fn ws(&mut self) -> B {
        let s = self.i;
        while let Some(c) = self.peek() {
            if is_ws(c) {
                self.i += 1;
            } else {
                break;
            }
        }
        B(self.b[s..self.i].to_vec())
    }
    fn rest(&self) -> &'a [u8] {
        &self.b[self.i..]
    }
}

fn strict_mnemonic(c: &mut Cur) -> Option<String> {
    let s = c.i;
    match c.peek() {
        Some(x) if x.is_ascii_alphabetic() => c.i += 1,
        _ => return None,
    }
    while let Some(x) = c.peek() {
        if x.is_ascii_alphanumeric() || x == b'_' {
            c.i += 1;
        } else {
            break;
        }
    }
    if c.i - s > 12 {
        return None;
    }
    Some(String::from_utf8(c.b[s..c.i].to_vec()).ok()?)
}

/// after an element: optional white space, then ',' / ';' / end-of-message must follow
fn at_elem_end(c: &Cur) -> bool {
    let mut j = c.i;
    while j < c.b.len() && is_ws(c.b[j]) {
        j += 1;
    }
    matches!(c.b.get(j), None | Some(b',') | Some(b';') | Some(b'\n'))
}

fn strict_elem(c: &mut Cur) -> Option<Elem> {
    let x = c.peek()?;
    if x.is_ascii_alphabetic() {
        let m = strict_mnemonic(c)?;
        return if at_elem_end(c) { Some(Elem::Chr(m)) } else { None };
    }
    if x.is_ascii_digit() || x == b'+' || x == b'-' || x == b'.' {
        let s = c.i;
        if matches!(c.peek(), Some(b'+') | Some(b'-')) {
            c.i += 1;
        }
        let d0 = c.i;
        while matches!(c.peek(), Some(d) if d.is_ascii_digit()) {
            c.i += 1;
        }
        let lead = c.i > d0;
        let mut frac = false;
        if c.peek() == Some(b'.') {
            c.i += 1;
            let f0 = c.i;
            while matches!(c.peek(), Some(d) if d.is_ascii_digit()) {
                c.i += 1;
            }
            frac = c.i > f0;
        }
        if !lead && !frac {
            return None;
        }
        if matches!(c.peek(), Some(b'E') | Some(b'e')) {
            c.i += 1;
            if matches!(c.peek(), Some(b'+') | Some(b'-')) {
                c.i += 1;
            }
            let e0 = c.i;
            while matches!(c.peek(), Some(d) if d.is_ascii_digit()) {
                c.i += 1;
            }
            if c.i == e0 {
                return None;
            }
        }
        let num = String::from_utf8(c.b[s..c.i].to_vec()).ok()?;
        if at_elem_end(c) {
            return Some(Elem::Dec(num));
        }
        // suffix (optionally after white space)
        let save = c.i;
        let ws = c.ws();
        let s0 = c.i;
        match c.peek() {
            Some(a) if a.is_ascii_alphabetic() && a != b'E' && a != b'e' => {}
            _ => {
                c.i = save;
                return None;
            }
        }
        while matches!(c.peek(), Some(a) if a.is_ascii_alphanumeric() || a == b'-' || a == b'/' || a == b'.') {
            c.i += 1;
        }
        if c.i - s0 > 12 || !at_elem_end(c) {
            return None;
        }
        let suf = String::from_utf8(c.b[s0..c.i].to_vec()).ok()?;
        return Some(Elem::DecSuf { num, ws, suf });
    }
    if x == b'"' || x == b'\'' {
        c.i += 1;
        let s = c.i;
        loop {
            let y = c.peek()?;
            if !y.is_ascii() {
                return None;
            }
            c.i += 1;
            if y == x {
                if c.peek() == Some(x) {
                    c.i += 1;
                    continue;
                }
                break;
            }
        }
        let inner = B(c.b[s..c.i - 1].to_vec());
        return if at_elem_end(c) { Some(Elem::Str { q: x as char, inner }) } else { None };
    }
    if x == b'(' {
        c.i += 1;
        let s = c.i;
        loop {
            let y = c.peek()?;
            if y == b')' {
                break;
            }
            if !y.is_ascii() || matches!(y, b'"' | b'\'' | b';' | b'(') {
                return None;
            }
            c.i += 1;
        }
        let inner = B(c.b[s..c.i].to_vec());
        c.i += 1;
        return if at_elem_end(c) { Some(Elem::Expr(inner)) } else { None };
    }
    if x == b'#' {
        c.i += 1;
        let y = c.peek()?;
        if y == b'0' {
            // indefinite: everything up to the final NL, which must end the message
            c.i += 1;
            let rest = c.rest();
            if rest.last() != Some(&b'\n') {
                return None;
            }
            let payload = B(rest[..rest.len() - 1].to_vec());
            c.i = c.b.len();
            return Some(Elem::BlkIndef { payload });
        }
        if y.is_ascii_digit() {
            c.i += 1;
            let n = (y - b'0') as usize;
            let field = c.b.get(c.i..c.i + n)?;
            if !field.iter().all(|d| d.is_ascii_digit()) {
                return None;
            }
            let len: usize = std::str::from_utf8(field).ok()?.parse().ok()?;
            c.i += n;
            let payload = c.b.get(c.i..c.i + len)?;
            let payload = B(payload.to_vec());
            c.i += len;
            let pad = (n - len.to_string().len()) as u8;
            return if at_elem_end(c) { Some(Elem::Blk { payload, pad }) } else { None };
        }
        if matches!(y, b'H' | b'h' | b'Q' | b'q' | b'B' | b'b') {
            c.i += 1;
            let radix = match y.to_ascii_uppercase() {
                b'H' => 16,
                b'Q' => 8,
                _ => 2,
            };
            let s = c.i;
            while matches!(c.peek(), Some(d) if (d as char).is_digit(radix)) {
                c.i += 1;
            }
            if c.i == s {
                return None;
            }
            let digits = String::from_utf8(c.b[s..c.i].to_vec()).ok()?;
            u64::from_str_radix(&digits, radix).ok()?;
            return if at_elem_end(c) { Some(Elem::NonDec { radix: y as char, digits }) } else { None };
        }
        return None;
    }
    None
}

/// Parse `bytes` as a member of the generator's language. Units get default (empty) plans.
pub fn parse_strict(bytes: &[u8]) -> Option<Msg> {
    let mut c = Cur { b: bytes, i: 0 };
    let mut units: Vec<Unit> = Vec::new();
    loop {
        let mut u = Unit::default();
        if !units.is_empty() {
            u.lead = c.ws();
        }
        // a trailing ';' (possibly followed by white space / NL) ends the message
        if !units.is_empty() && matches!(c.rest(), b"" | b"\n") {
            let mut end = vec![b';'];
            end.extend_from_slice(u.lead.as_slice());
            end.extend_from_slice(c.rest());
            let m = Msg { units, end: B(end) };
            return if msg_in_domain(&m) { Some(m) } else { None };
        }
        // header
        if c.peek() == Some(b'*') {
            c.i += 1;
            let m = strict_mnemonic(&mut c)?;
            // letters only: whether the "absent suffix = 1" rule of SCPI headers also applies to
            // IEEE 488.2 common commands (`*IDN1?`) is not fixed by the statements, so such
            // headers are outside the strict language
            if m.len() > 11 || !m.bytes().all(|b| b.is_ascii_alphabetic()) {
                return None;
            }
            u.path = vec![format!("*{}", m)];
        } else {
            u.colon = c.eat(b':');
            loop {
                u.path.push(strict_mnemonic(&mut c)?);
                if c.peek() == Some(b':') {
                    c.i += 1;
                    continue;
                }
                break;
            }
        }
        u.query = c.eat(b'?');
        // what follows the header: white space, ';', NL, or end
        let hs = c.ws();
        match c.peek() {
            None | Some(b';') | Some(b'\n') => {
                u.hsep = hs;
            }
            Some(_) => {
                if hs.is_empty() {
                    return None;
                }
                u.hsep = hs;
                loop {
                    let e = strict_elem(&mut c)?;
                    let indef = matches!(e, Elem::BlkIndef { .. });
                    u.params.push(e);
                    if indef {
                        break;
                    }
                    let save = c.i;
                    let w1 = c.ws();
                    if c.peek() == Some(b',') {
                        c.i += 1;
                        let w2 = c.ws();
                        let mut sep = w1.0;
                        sep.push(b',');
                        sep.extend_from_slice(&w2.0);
                        u.psep.push(B(sep));
                        continue;
                    }
                    c.i = save;
                    u.tail = c.ws();
                    break;
                }
            }
        }
        let indef_end = matches!(u.params.last(), Some(Elem::BlkIndef { .. }));
        units.push(u);
        if indef_end {
            let m = Msg { units, end: B::new() };
            return if msg_in_domain(&m) { Some(m) } else { None };
        }
        match c.peek() {
            Some(b';') => {
                c.i += 1;
                continue;
            }
            _ => {
                // the tail white space was already consumed into hsep/tail; what remains must
                // be one of the accepted endings
                let last = units.last_mut().unwrap();
                let mut end: Vec<u8> = Vec::new();
                // move trailing white space of the last unit into the message ending
                if last.params.is_empty() {
                    end.extend_from_slice(last.hsep.as_slice());
                    last.hsep = B::new();
                } else {
                    end.extend_from_slice(last.tail.as_slice());
                    last.tail = B::new();
                }
                end.extend_from_slice(c.rest());
                let m = Msg { units, end: B(end) };
                return if msg_in_domain(&m) { Some(m) } else { None };
            }
        }
    }
}
