//! Pinned PRNG: SplitMix64 seeding + xoshiro256**. Every choice of a simulated run is drawn
//! from one of these, created from (VERIF_SEED, property, run index).

#[derive(Clone, Debug)]
pub struct Rng {
    s: [u64; 4],
}

pub fn splitmix64(x: &mut u64) -> u64 {
    *x = x.wrapping_add(0x9E37_79B9_7F4A_7C15);
    let mut z = *x;
    z = (z ^ (z >> 30)).wrapping_mul(0xBF58_476D_1CE4_E5B9);
    z = (z ^ (z >> 27)).wrapping_mul(0x94D0_49BB_1331_11EB);
    z ^ (z >> 31)
}

pub fn fnv1a(bytes: &[u8]) -> u64 {
    let mut h: u64 = 0xcbf2_9ce4_8422_2325;
    for b in bytes {
        h ^= *b as u64;
        h = h.wrapping_mul(0x0000_0100_0000_01B3);
    }
    h
}

/// Mix (seed, property tag, run index) into one 64-bit stream seed.
pub fn mix(seed: u64, tag: &str, run: u64) -> u64 {
    let mut x = seed ^ fnv1a(tag.as_bytes()).rotate_left(17) ^ run.wrapping_mul(0xD6E8_FEB8_6659_FD93);
    let a = splitmix64(&mut x);
    let b = splitmix64(&mut x);
    a ^ b.rotate_left(32)
}

impl Rng {
    pub fn new(seed: u64) -> Self {
        let mut x = seed;
        let s = [
            splitmix64(&mut x),
            splitmix64(&mut x),
            splitmix64(&mut x),
            splitmix64(&mut x),
        ];
        Rng { s }
    }

    pub fn next_u64(&mut self) -> u64 {
        let result = self.s[1].wrapping_mul(5).rotate_left(7).wrapping_mul(9);
        let t = self.s[1] << 17;
        self.s[2] ^= self.s[0];
        self.s[3] ^= self.s[1];
        self.s[1] ^= self.s[2];
        self.s[0] ^= self.s[3];
        self.s[2] ^= t;
        self.s[3] = self.s[3].rotate_left(45);
        result
    }

    /// Uniform in 0..n (n > 0).
    pub fn below(&mut self, n: u64) -> u64 {
        debug_assert!(n > 0);
        // multiply-shift; bias is irrelevant here but determinism is not
        ((self.next_u64() as u128 * n as u128) >> 64) as u64
    }

    pub fn usize_below(&mut self, n: usize) -> usize {
        self.below(n as u64) as usize
    }

    /// Uniform in lo..=hi
    pub fn range(&mut self, lo: i64, hi: i64) -> i64 {
        debug_assert!(lo <= hi);
        let span = (hi as i128 - lo as i128 + 1) as u128;
        let r = (self.next_u64() as u128 * span) >> 64;
        (lo as i128 + r as i128) as i64
    }

    pub fn urange(&mut self, lo: usize, hi: usize) -> usize {
        self.range(lo as i64, hi as i64) as usize
    }

    /// true with probability num/den
    pub fn chance(&mut self, num: u64, den: u64) -> bool {
        self.below(den) < num
    }

    pub fn pick<'a, T>(&mut self, xs: &'a [T]) -> &'a T {
        &xs[self.usize_below(xs.len())]
    }

    /// index chosen with the given weights (sum > 0)
    pub fn weighted(&mut self, w: &[u32]) -> usize {
        let total: u64 = w.iter().map(|x| *x as u64).sum();
        debug_assert!(total > 0);
        let mut r = self.below(total);
        for (i, x) in w.iter().enumerate() {
            if r < *x as u64 {
                return i;
            }
            r -= *x as u64;
        }
        w.len() - 1
    }

    pub fn fork(&mut self) -> Rng {
        Rng::new(self.next_u64())
    }
}
