//! Per-run and merged statistics: counters (faults fired, probes hit, steps), coverage
//! fingerprints, and the event-log hash used by the determinism self-test.

use std::collections::{BTreeMap, BTreeSet};

use crate::rng::fnv1a;

#[derive(Clone, Debug, Default)]
pub struct Stats {
    pub counters: BTreeMap<String, u64>,
    /// distinct abstract states / cases (property-specific fingerprint)
    pub states: BTreeSet<u64>,
    /// distinct schedule shapes (hash of step-kind sequence)
    pub shapes: BTreeSet<u64>,
    /// rolling hash over everything observed (determinism check)
    pub log_hash: u64,
    pub samples: Vec<String>,
}

impl Stats {
    pub fn new() -> Self {
        Stats {
            log_hash: 0xcbf2_9ce4_8422_2325,
            ..Default::default()
        }
    }
    pub fn bump(&mut self, k: &str) {
        self.add(k, 1)
    }
    pub fn add(&mut self, k: &str, n: u64) {
        if let Some(v) = self.counters.get_mut(k) {
            *v += n;
        } else {
            self.counters.insert(k.to_string(), n);
        }
    }
    pub fn fault(&mut self, k: &str) {
        self.add(&format!("fault.{}", k), 1)
    }
    pub fn probe(&mut self, k: &str) {
        self.add(&format!("probe.{}", k), 1)
    }
    pub fn state(&mut self, bytes: &[u8]) {
        self.states.insert(fnv1a(bytes));
    }
    pub fn state_str(&mut self, s: &str) {
        self.states.insert(fnv1a(s.as_bytes()));
    }
    pub fn shape(&mut self, bytes: &[u8]) {
        self.shapes.insert(fnv1a(bytes));
    }
    pub fn log(&mut self, bytes: &[u8]) {
        for b in bytes {
            self.log_hash ^= *b as u64;
            self.log_hash = self.log_hash.wrapping_mul(0x0000_0100_0000_01B3);
        }
        // separator so that concatenation ambiguities do not collide
        self.log_hash ^= 0xff;
        self.log_hash = self.log_hash.wrapping_mul(0x0000_0100_0000_01B3);
    }
    pub fn log_str(&mut self, s: &str) {
        self.log(s.as_bytes())
    }
    pub fn merge(&mut self, other: &Stats) {
        for (k, v) in &other.counters {
            self.add(k, *v);
        }
        self.states.extend(other.states.iter().copied());
        self.shapes.extend(other.shapes.iter().copied());
        // order-dependent combination: merged strictly in run-index order by the runner
        self.log_hash = (self.log_hash.rotate_left(5) ^ other.log_hash).wrapping_mul(0x0000_0100_0000_01B3);
        for s in &other.samples {
            if self.samples.len() < 6 {
                self.samples.push(s.clone());
            }
        }
    }
}
