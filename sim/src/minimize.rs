//! Trace minimisation (delta debugging on the replay file) and violation reporting.

use crate::msg::msg_in_domain;
use crate::runner::*;
use crate::tree::tree_in_domain;
use crate::types::*;

fn in_domain(t: &Trace) -> bool {
    if !tree_in_domain(&t.config.tree) {
        return false;
    }
    for s in &t.steps {
        if let Step::Send(s) = s {
            if s.msg.units.is_empty() {
                return false;
            }
            if s.corrupt.is_empty() && !msg_in_domain(&s.msg) {
                return false;
            }
        }
    }
    true
}

struct Min<'a> {
    prop: &'a dyn Prop,
    target: Finding,
    best: Trace,
    execs: usize,
    cap: usize,
}

impl<'a> Min<'a> {
    fn try_accept(&mut self, cand: Trace) -> bool {
        if self.execs >= self.cap {
            return false;
        }
        if cand == self.best || !in_domain(&cand) {
            return false;
        }
        self.execs += 1;
        if let Some(f) = reproduces(self.prop, &cand, &self.target) {
            self.best = cand;
            self.target.step = f.step;
            self.target.detail = f.detail;
            true
        } else {
            false
        }
    }

    fn pass_steps(&mut self) -> bool {
        let mut progress = false;
        // cut everything after the failing step
        if self.target.step + 1 < self.best.steps.len() {
            let mut c = self.best.clone();
            c.steps.truncate(self.target.step + 1);
            progress |= self.try_accept(c);
        }
        // drop chunks, then single steps
        let mut size = (self.best.steps.len() / 2).max(1);
        while size >= 1 {
            let mut i = 0;
            while i < self.best.steps.len() {
                let mut c = self.best.clone();
                let end = (i + size).min(c.steps.len());
                c.steps.drain(i..end);
                if c.steps.is_empty() || !self.try_accept(c) {
                    i += size;
                } else {
                    progress = true;
                }
            }
            if size == 1 {
                break;
            }
            size /= 2;
        }
        progress
    }

    fn with_send<F: Fn(&mut SendStep) -> bool>(&mut self, idx: usize, f: F) -> bool {
        let mut c = self.best.clone();
        let changed = match c.steps.get_mut(idx) {
            Some(Step::Send(s)) => f(s),
            _ => false,
        };
        changed && self.try_accept(c)
    }

    fn pass_messages(&mut self) -> bool {
        let mut progress = false;
        let nsteps = self.best.steps.len();
        for idx in 0..nsteps {
            if !matches!(self.best.steps.get(idx), Some(Step::Send(_))) {
                continue;
            }
            // drop corruption entries
            loop {
                let n = match &self.best.steps[idx] {
                    Step::Send(s) => s.corrupt.len(),
                    _ => 0,
                };
                let mut any = false;
                for k in 0..n {
                    if self.with_send(idx, |s| {
                        if k < s.corrupt.len() {
                            s.corrupt.remove(k);
                            true
                        } else {
                            false
                        }
                    }) {
                        any = true;
                        progress = true;
                        break;
                    }
                }
                if !any {
                    break;
                }
            }
            // drop units
            loop {
                let n = match &self.best.steps[idx] {
                    Step::Send(s) => s.msg.units.len(),
                    _ => 0,
                };
                let mut any = false;
                for k in (0..n).rev() {
                    if n <= 1 {
                        break;
                    }
                    if self.with_send(idx, |s| {
                        if k < s.msg.units.len() && s.msg.units.len() > 1 {
                            s.msg.units.remove(k);
                            if k == 0 {
                                s.msg.units[0].lead = B::new();
                            }
                            true
                        } else {
                            false
                        }
                    }) {
                        any = true;
                        progress = true;
                        break;
                    }
                }
                if !any {
                    break;
                }
            }
            // per unit simplifications
            let nunits = match &self.best.steps[idx] {
                Step::Send(s) => s.msg.units.len(),
                _ => 0,
            };
            for u in 0..nunits {
                // drop parameters (last first), together with the matching pull if counts agree
                loop {
                    let np = match &self.best.steps[idx] {
                        Step::Send(s) => s.msg.units.get(u).map(|x| x.params.len()).unwrap_or(0),
                        _ => 0,
                    };
                    let mut any = false;
                    for k in (0..np).rev() {
                        for drop_pull in [true, false] {
                            if self.with_send(idx, |s| {
                                let un = &mut s.msg.units[u];
                                if un.pfault.is_some() || k >= un.params.len() {
                                    return false;
                                }
                                un.params.remove(k);
                                if !un.psep.is_empty() {
                                    let at = if k == 0 { 0 } else { k - 1 };
                                    un.psep.remove(at.min(un.psep.len() - 1));
                                }
                                if un.params.is_empty() {
                                    un.tail = B::new();
                                }
                                if drop_pull && k < un.plan.pulls.len() {
                                    un.plan.pulls.remove(k);
                                }
                                true
                            }) {
                                any = true;
                                progress = true;
                                break;
                            }
                        }
                        if any {
                            break;
                        }
                    }
                    if !any {
                        break;
                    }
                }
                // plan simplifications
                progress |= self.with_send(idx, |s| s.msg.units[u].plan.fail.take().is_some());
                progress |= self.with_send(idx, |s| s.msg.units[u].plan.hw.take().is_some());
                progress |= self.with_send(idx, |s| {
                    let p = &mut s.msg.units[u].plan;
                    if p.hdr.is_empty() {
                        false
                    } else {
                        p.hdr.clear();
                        true
                    }
                });
                loop {
                    let nd = match &self.best.steps[idx] {
                        Step::Send(s) => s.msg.units[u].plan.data.len(),
                        _ => 0,
                    };
                    if nd <= 1 {
                        break;
                    }
                    if !self.with_send(idx, |s| {
                        s.msg.units[u].plan.data.pop();
                        true
                    }) {
                        break;
                    }
                    progress = true;
                }
                loop {
                    let npull = match &self.best.steps[idx] {
                        Step::Send(s) => s.msg.units[u].plan.pulls.len(),
                        _ => 0,
                    };
                    if npull == 0 {
                        break;
                    }
                    if !self.with_send(idx, |s| {
                        s.msg.units[u].plan.pulls.pop();
                        true
                    }) {
                        break;
                    }
                    progress = true;
                }
                // canonical white space
                progress |= self.with_send(idx, |s| {
                    let un = &mut s.msg.units[u];
                    if un.pfault.is_some() {
                        return false;
                    }
                    let before = un.clone();
                    un.lead = B::new();
                    un.tail = B::new();
                    un.hsep = if un.params.is_empty() { B::new() } else { B::from(" ") };
                    for p in un.psep.iter_mut() {
                        *p = B::from(",");
                    }
                    *un != before
                });
                // simplest data
                progress |= self.with_send(idx, |s| {
                    let un = &mut s.msg.units[u];
                    let before = un.plan.data.clone();
                    for d in un.plan.data.iter_mut() {
                        *d = Datum::U8(0);
                    }
                    un.plan.data != before
                });
            }
            // message ending
            progress |= self.with_send(idx, |s| {
                if s.msg.end.is_empty() {
                    false
                } else {
                    s.msg.end = B::new();
                    true
                }
            });
            progress |= self.with_send(idx, |s| {
                if s.fmt == FmtCfg::Vec {
                    false
                } else {
                    s.fmt = FmtCfg::Vec;
                    true
                }
            });
        }
        progress
    }

    fn pass_config(&mut self) -> bool {
        let mut progress = false;
        // single controller
        if self.best.config.controllers > 1 {
            let mut c = self.best.clone();
            c.config.controllers = 1;
            for s in c.steps.iter_mut() {
                match s {
                    Step::Send(x) => x.ctl = 0,
                    Step::Read { ctl } => *ctl = 0,
                    _ => {}
                }
            }
            progress |= self.try_accept(c);
        }
        if self.best.config.queue != QueueCfg::Vec {
            let mut c = self.best.clone();
            c.config.queue = QueueCfg::Vec;
            progress |= self.try_accept(c);
        }
        // prune application tree nodes
        fn count(nodes: &[TNode]) -> usize {
            nodes
                .iter()
                .map(|n| match n {
                    TNode::Leaf { .. } => 1,
                    TNode::Branch { sub, .. } => 1 + count(sub),
                })
                .sum()
        }
        fn remove_nth(nodes: &mut Vec<TNode>, n: &mut usize) -> bool {
            let mut i = 0;
            while i < nodes.len() {
                if *n == 0 {
                    nodes.remove(i);
                    return true;
                }
                *n -= 1;
                if let TNode::Branch { sub, .. } = &mut nodes[i] {
                    if remove_nth(sub, n) {
                        return true;
                    }
                }
                i += 1;
            }
            false
        }
        let mut k = 0;
        while k < count(&self.best.config.tree.app) {
            let mut c = self.best.clone();
            let mut n = k;
            remove_nth(&mut c.config.tree.app, &mut n);
            // branches must keep at least one child
            fn no_empty(nodes: &[TNode]) -> bool {
                nodes.iter().all(|n| match n {
                    TNode::Leaf { .. } => true,
                    TNode::Branch { sub, .. } => !sub.is_empty() && no_empty(sub),
                })
            }
            if no_empty(&c.config.tree.app) && self.try_accept(c) {
                progress = true;
            } else {
                k += 1;
            }
        }
        if self.best.config.tree.mandated {
            let mut c = self.best.clone();
            c.config.tree.mandated = false;
            progress |= self.try_accept(c);
        }
        progress
    }
}

pub fn minimise(prop: &dyn Prop, trace: Trace, finding: &Finding) -> (Trace, Finding, usize) {
    let mut m = Min {
        prop,
        target: finding.clone(),
        best: trace,
        execs: 0,
        cap: 4000,
    };
    if finding.invariant == "C01.hang" {
        return (m.best, m.target, 0);
    }
    for _round in 0..4 {
        let mut progress = false;
        progress |= m.pass_steps();
        progress |= m.pass_messages();
        progress |= m.pass_config();
        if !progress || m.execs >= m.cap {
            break;
        }
    }
    (m.best, m.target, m.execs)
}

/// Minimise, write the replay file, verify it in a fresh process, print the VIOLATION line.
pub fn report(prop: &dyn Prop, trace: Trace, finding: Finding) -> i32 {
    let seed = trace.seed;
    let run = trace.run;
    let mut full = trace.clone();
    full.violation = Some(finding.info());
    let full_path = replay_path(prop.id(), seed, run, "full");
    if let Err(e) = write_trace(&full_path, &full) {
        eprintln!("harness error: cannot write {}: {}", full_path.display(), e);
        return 2;
    }
    let (mut min, f, execs) = minimise(prop, trace, &finding);
    min.violation = Some(f.info());
    let min_path = replay_path(prop.id(), seed, run, "min");
    if let Err(e) = write_trace(&min_path, &min) {
        eprintln!("harness error: cannot write {}: {}", min_path.display(), e);
        return 2;
    }
    // replay in a fresh process: must fail the same way
    let exe = std::env::current_exe().expect("current exe");
    let verify = |p: &std::path::Path| -> bool {
        match std::process::Command::new(&exe).arg("replay").arg(p).output() {
            Ok(o) => {
                let s = String::from_utf8_lossy(&o.stdout);
                o.status.code() == Some(1) && s.contains("(reproduced)")
            }
            Err(_) => false,
        }
    };
    let (path, shown) = if verify(&min_path) {
        (min_path, &min)
    } else if verify(&full_path) {
        eprintln!("note: minimised trace did not replay in a fresh process; reporting the full trace");
        (full_path, &full)
    } else {
        eprintln!(
            "harness error: violation {} / {} does not replay from {} in a fresh process",
            finding.invariant,
            finding.signature,
            full_path.display()
        );
        return 2;
    };
    println!("VIOLATION property={} replay={}", prop.id(), path.display());
    println!("  invariant={} signature={} step={}", f.invariant, f.signature, shown.violation.as_ref().map(|v| v.step).unwrap_or(0));
    println!("  seed={} run={} profile={} minimiser_executions={} steps={}", seed, run, profile_name(), execs, shown.steps.len());
    println!("  {}", shown.violation.as_ref().map(|v| v.detail.clone()).unwrap_or_default());
    1
}
