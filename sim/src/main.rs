//! Deterministic simulation with fault injection for scpi-rs. See /verif/DESIGN.md.

mod alloc;
mod device;
mod exec;
mod gen;
mod minimize;
mod model;
mod msg;
mod props;
mod rng;
mod runner;
mod stats;
mod tree;
mod types;

use runner::*;

#[global_allocator]
static GLOBAL: alloc::Counting = alloc::Counting;

fn usage() -> ! {
    eprintln!(
        "usage:\n  sim run <PROP> <quick|thorough|tiny> [--part TAG] [--from A --to B]\n  sim merge <PROP> <quick|thorough> TAG...\n  sim replay <FILE>\n  sim gen <PROP> <run> [tier]\n  sim hash <PROP> <tier> [--from A --to B]   (event-log hash for the determinism proof)\n  sim list"
    );
    std::process::exit(2)
}

fn tier_of(s: &str) -> Tier {
    match s {
        "quick" => Tier::Quick,
        "thorough" => Tier::Thorough,
        "tiny" => Tier::Tiny,
        _ => usage(),
    }
}

fn seed() -> u64 {
    std::env::var("VERIF_SEED").ok().and_then(|s| s.trim().parse().ok()).unwrap_or(1)
}

fn flag(args: &[String], name: &str) -> Option<String> {
    args.iter().position(|a| a == name).and_then(|i| args.get(i + 1).cloned())
}

fn main() {
    let args: Vec<String> = std::env::args().skip(1).collect();
    if args.is_empty() {
        usage();
    }
    exec::install_panic_hook();
    match args[0].as_str() {
        "list" => {
            for p in props::all() {
                println!("{}", p.id());
            }
        }
        "run" | "hash" => {
            if args.len() < 3 {
                usage();
            }
            let prop = props::by_id(&args[1]).unwrap_or_else(|| usage());
            let tier = tier_of(&args[2]);
            let seed = seed();
            let total = prop.runs(tier);
            let from: u64 = flag(&args, "--from").and_then(|s| s.parse().ok()).unwrap_or(0);
            let to: u64 = flag(&args, "--to").and_then(|s| s.parse().ok()).unwrap_or(total);
            let tag = flag(&args, "--part").unwrap_or_else(|| profile_name().to_string());
            println!("VERIF_SEED={} property={} tier={} profile={} runs={}..{}", seed, prop.id(), tier.name(), profile_name(), from, to);
            if !cfg!(miri) {
                let id: &'static str = prop.id();
                let p2 = props::by_id(id).unwrap();
                start_watchdog(id, seed, tier, 30, move |run| p2.gen(seed, run, tier));
            }
            let outcome = search(prop.as_ref(), tier, seed, from, to);
            if args[0] == "hash" {
                println!("event_log_hash={:016x} runs={}", outcome.stats.log_hash, outcome.runs_done);
                if outcome.violation.is_some() {
                    println!("(violation present)");
                }
                return;
            }
            for (k, (n, what)) in &outcome.known_hits {
                println!("KNOWN-FINDING: property={} {} [{}; {} occurrences]", prop.id(), what, k, n);
            }
            let mut part = part_from(prop.as_ref(), tier, seed, &outcome);
            props::extra_evidence(prop.id(), &mut part);
            write_part(&part, &tag);
            match outcome.violation {
                None => {
                    // reach self-test: probes that must have been hit
                    if from == 0 && to == total && tier != Tier::Tiny {
                        let missing: Vec<String> = prop
                            .required_probes()
                            .into_iter()
                            .filter(|p| outcome.stats.counters.get(&format!("probe.{}", p)).copied().unwrap_or(0) == 0)
                            .collect();
                        if !missing.is_empty() {
                            eprintln!("harness error: required probes never hit: {:?}", missing);
                            std::process::exit(2);
                        }
                    }
                    println!(
                        "OK property={} runs={} steps={} distinct_states={} wall={:.1}s",
                        prop.id(),
                        outcome.runs_done,
                        outcome.stats.counters.get("steps").copied().unwrap_or(0),
                        outcome.stats.states.len(),
                        outcome.wall_s
                    );
                }
                Some((trace, finding)) => {
                    let code = minimize::report(prop.as_ref(), trace, finding);
                    std::process::exit(code);
                }
            }
        }
        "runs" => {
            if args.len() < 3 {
                usage();
            }
            let prop = props::by_id(&args[1]).unwrap_or_else(|| usage());
            println!("{}", prop.runs(tier_of(&args[2])));
        }
        "merge" => {
            if args.len() < 4 {
                usage();
            }
            let prop = props::by_id(&args[1]).unwrap_or_else(|| usage());
            let tier = tier_of(&args[2]);
            let tags: Vec<&str> = args[3..].iter().map(|s| s.as_str()).collect();
            if let Err(e) = merge_parts(prop.as_ref(), tier, &tags) {
                eprintln!("harness error: {}", e);
                std::process::exit(2);
            }
        }
        "replay" => {
            if args.len() < 2 {
                usage();
            }
            let path = std::path::PathBuf::from(&args[1]);
            let trace = match read_trace(&path) {
                Ok(t) => t,
                Err(e) => {
                    eprintln!("harness error: cannot read {}: {}", path.display(), e);
                    std::process::exit(2);
                }
            };
            let prop = props::by_id(&trace.property).unwrap_or_else(|| usage());
            let mut st = stats::Stats::new();
            let findings = prop.check(&trace, &mut st);
            let known = load_known();
            let mut code = 0;
            for f in &findings {
                let k = is_known(&known, prop.id(), f).is_some();
                println!(
                    "{} invariant={} signature={} step={}\n  {}",
                    if k { "known-finding" } else { "finding" },
                    f.invariant,
                    f.signature,
                    f.step,
                    f.detail
                );
            }
            if let Some(v) = &trace.violation {
                if findings.iter().any(|f| f.invariant == v.invariant && f.signature == v.signature) {
                    println!("VIOLATION property={} replay={}", prop.id(), path.display());
                    println!("  invariant={} signature={} (reproduced)", v.invariant, v.signature);
                    code = 1;
                } else {
                    println!("recorded violation {} / {} did NOT reproduce", v.invariant, v.signature);
                }
            } else if let Some(f) = findings.iter().find(|f| is_known(&known, prop.id(), f).is_none()) {
                println!("VIOLATION property={} replay={}", prop.id(), path.display());
                println!("  invariant={} signature={}", f.invariant, f.signature);
                code = 1;
            }
            std::process::exit(code);
        }
        "gen" => {
            if args.len() < 3 {
                usage();
            }
            let prop = props::by_id(&args[1]).unwrap_or_else(|| usage());
            let run: u64 = args[2].parse().unwrap_or_else(|_| usage());
            let tier = args.get(3).map(|s| tier_of(s)).unwrap_or(Tier::Quick);
            let t = prop.gen(seed(), run, tier);
            println!("{}", serde_json::to_string_pretty(&t).unwrap());
        }
        _ => usage(),
    }
}
