//! The simulated instrument: a harness-owned device struct wired exactly like
//! `scpi-contrib/examples/minimal_scpi.rs`, application command handlers that behave as the
//! trace's plans say (`SimHandler`), and construction of the real `Node` tree.

use arrayvec::ArrayVec;
use scpi::error::{Error, ErrorCode, ErrorQueue, Result};
use scpi::parser::expression::{channel_list, numeric_list};
use scpi::parser::format::{Arbitrary, Binary, Character, Expression, Hex, Octal};
use scpi::parser::suffix::{Amplitude, Db};
use scpi::tree::prelude::*;
use scpi_contrib::ieee488::prelude::*;
use scpi_contrib::scpi1999::prelude::*;
use scpi_contrib::scpi1999::{util::Auto, NumericValue};
use scpi_contrib::{
    ieee488_cls, ieee488_ese, ieee488_esr, ieee488_idn, ieee488_opc, ieee488_rst, ieee488_sre,
    ieee488_stb, ieee488_tst, ieee488_wai, scpi_status, scpi_system,
};

use crate::alloc;
use crate::types::*;

// ------------------------------------------------------------------------------------------
// Static text tables for injected errors (Error carries &'static [u8])

pub const EXT_TABLE: [&[u8]; 16] = [
    b"sim-ext-0",
    b"sim-ext-1",
    b"sim-ext-2",
    b"sim-ext-3",
    b"sim-ext-4",
    b"sim-ext-5",
    b"sim-ext-6",
    b"sim-ext-7",
    b"x",
    b"a longer extended description, with comma",
    b"ext-10",
    b"ext-11",
    b"ext-12",
    b"ext-13",
    b"ext-14",
    // (not ASCII: device-dependent information is free text)
    b"T=85\xb0C",
];

pub const MSG_TABLE: [&[u8]; 8] = [
    b"Sim custom error 0",
    b"Sim custom error 1",
    b"Sim custom error 2",
    b"Sim custom error 3",
    b"Sim custom error 4",
    b"Sim custom error 5",
    // a description containing the string delimiter (only used without extended text)
    b"Relay \"K1\" stuck",
    // a description longer than 255 characters
    b"Sim custom error 7 with a very long device-dependent description: 0123456789 0123456789 0123456789 0123456789 0123456789 0123456789 0123456789 0123456789 0123456789 0123456789 0123456789 0123456789 0123456789 0123456789 0123456789 0123456789 0123456789 0123456789 0123456789 end",
];

pub fn build_err(spec: &ErrSpec) -> Error {
    let base = match ErrorCode::get_error(spec.code) {
        Some(ec) => Error::new(ec),
        None => Error::custom(spec.code, MSG_TABLE[(spec.msg as usize) % MSG_TABLE.len()]),
    };
    match spec.ext {
        Some(i) => base.extended(EXT_TABLE[(i as usize) % EXT_TABLE.len()]),
        None => base,
    }
}

pub fn obs_err(e: &Error) -> ErrObs {
    ErrObs {
        code: e.get_code(),
        msg: B(e.get_message().to_vec()),
        ext: e.get_extended().map(|x| B(x.to_vec())),
    }
}

pub fn obs_tok(t: &Token) -> Tok {
    match t {
        Token::CharacterProgramData(s) => Tok::Chr(B(s.to_vec())),
        Token::DecimalNumericProgramData(s) => Tok::Dec(B(s.to_vec())),
        Token::DecimalNumericSuffixProgramData(a, b) => Tok::DecSuf(B(a.to_vec()), B(b.to_vec())),
        Token::NonDecimalNumericProgramData(v) => Tok::NonDec(*v),
        Token::StringProgramData(s) => Tok::Str(B(s.to_vec())),
        Token::ArbitraryBlockData(s) => Tok::Blk(B(s.to_vec())),
        Token::ExpressionProgramData(s) => Tok::Expr(B(s.to_vec())),
        other => Tok::Other(format!("{:?}", other)),
    }
}

// ------------------------------------------------------------------------------------------
// Error queue: one of the two shipped implementations, selected at run time

#[derive(Clone)]
pub enum QueueImpl {
    V(Vec<Error>),
    A1(ArrayVec<Error, 1>),
    A2(ArrayVec<Error, 2>),
    A3(ArrayVec<Error, 3>),
    A4(ArrayVec<Error, 4>),
    A5(ArrayVec<Error, 5>),
    A8(ArrayVec<Error, 8>),
    A16(ArrayVec<Error, 16>),
    A32(ArrayVec<Error, 32>),
}

pub const ARRAY_QUEUE_CAPS: &[usize] = &[1, 2, 3, 4, 5, 8, 16, 32];

macro_rules! qd {
    ($q:expr, $v:ident => $e:expr) => {
        match $q {
            QueueImpl::V($v) => $e,
            QueueImpl::A1($v) => $e,
            QueueImpl::A2($v) => $e,
            QueueImpl::A3($v) => $e,
            QueueImpl::A4($v) => $e,
            QueueImpl::A5($v) => $e,
            QueueImpl::A8($v) => $e,
            QueueImpl::A16($v) => $e,
            QueueImpl::A32($v) => $e,
        }
    };
}

impl QueueImpl {
    pub fn new(cfg: &QueueCfg) -> Option<QueueImpl> {
        Some(match cfg {
            QueueCfg::Vec => QueueImpl::V(Vec::new()),
            QueueCfg::Array { cap } => match cap {
                1 => QueueImpl::A1(ArrayVec::new()),
                2 => QueueImpl::A2(ArrayVec::new()),
                3 => QueueImpl::A3(ArrayVec::new()),
                4 => QueueImpl::A4(ArrayVec::new()),
                5 => QueueImpl::A5(ArrayVec::new()),
                8 => QueueImpl::A8(ArrayVec::new()),
                16 => QueueImpl::A16(ArrayVec::new()),
                32 => QueueImpl::A32(ArrayVec::new()),
                _ => return None,
            },
        })
    }
    pub fn contents(&self) -> Vec<ErrObs> {
        qd!(self, q => q.iter().map(obs_err).collect())
    }
    pub fn raw_len(&self) -> usize {
        qd!(self, q => q.len())
    }
    // the shipped trait impls, called through the trait
    pub fn push(&mut self, e: Error) {
        qd!(self, q => ErrorQueue::push_back_error(q, e))
    }
    pub fn pop(&mut self) -> Option<Error> {
        qd!(self, q => ErrorQueue::pop_front_error(q))
    }
    pub fn num(&self) -> usize {
        qd!(self, q => ErrorQueue::num_errors(q))
    }
    pub fn clear(&mut self) {
        qd!(self, q => ErrorQueue::clear_errors(q))
    }
    pub fn empty(&self) -> bool {
        qd!(self, q => ErrorQueue::is_empty(q))
    }
}

// ------------------------------------------------------------------------------------------
// Logs kept by the device for the executor

#[derive(Clone, Debug, PartialEq)]
pub struct CallObs {
    pub h: usize,
    pub query: bool,
    pub pulls: Vec<PullObs>,
    pub hdr_written: usize,
    pub data_written: usize,
    pub ret: Option<ErrObs>,
    pub finished: bool,
    pub planned: bool,
}

#[derive(Default)]
pub struct SimState {
    pub plans: Vec<Plan>,
    pub calls: Vec<CallObs>,
    pub hook: Vec<ErrObs>,
    /// number of Formatter calls seen by a FaultyFormatter when its fault fired -> calls.len()
    pub calls_at_fire: Option<usize>,
}

pub struct SimDevice {
    pub esr: u8,
    pub ese: u8,
    pub sre: u8,
    pub oper: EventRegister,
    pub ques: EventRegister,
    pub queue: QueueImpl,
    /// result of the next self test (0 = pass)
    pub tst_code: i16,
    /// plain IEEE 488.2 device: stb() is the trait's default implementation
    pub plain_stb: bool,
    pub sim: SimState,
}

/// View of the device that does not override `IEEE4882::stb` (what a device without the SCPI
/// status structures gets).
struct Plain488<'a>(&'a SimDevice);

impl<'a> IEEE4882 for Plain488<'a> {
    fn sre(&self) -> u8 {
        self.0.sre
    }
    fn set_sre(&mut self, _value: u8) {}
    fn esr(&self) -> u8 {
        self.0.esr
    }
    fn set_esr(&mut self, _value: u8) {}
    fn ese(&self) -> u8 {
        self.0.ese
    }
    fn set_ese(&mut self, _value: u8) {}
    fn tst(&mut self) -> Result<()> {
        Ok(())
    }
    fn rst(&mut self) -> Result<()> {
        Ok(())
    }
    fn cls(&mut self) -> Result<()> {
        Ok(())
    }
    fn opc(&mut self) -> Result<()> {
        Ok(())
    }
}

impl SimDevice {
    pub fn new(q: &QueueCfg) -> Option<Self> {
        Some(SimDevice {
            esr: 0,
            ese: 0,
            sre: 0,
            oper: EventRegister::default(),
            ques: EventRegister::default(),
            queue: QueueImpl::new(q)?,
            tst_code: 0,
            plain_stb: false,
            sim: SimState::default(),
        })
    }
    /// copy of the instrument state (registers + queue) with empty harness logs
    pub fn clone_state(&self) -> SimDevice {
        SimDevice {
            esr: self.esr,
            ese: self.ese,
            sre: self.sre,
            oper: self.oper,
            ques: self.ques,
            queue: self.queue.clone(),
            tst_code: self.tst_code,
            plain_stb: self.plain_stb,
            sim: SimState::default(),
        }
    }
    pub fn reg(&mut self, r: Reg) -> &mut EventRegister {
        match r {
            Reg::Oper => &mut self.oper,
            Reg::Ques => &mut self.ques,
        }
    }
}

impl Device for SimDevice {
    fn handle_error(&mut self, err: Error) {
        alloc::harness(|| self.sim.hook.push(obs_err(&err)));
        // documented wiring
        self.push_error(err)
    }
}

impl IEEE4882 for SimDevice {
    fn stb(&self) -> u8 {
        if self.plain_stb {
            Plain488(self).stb()
        } else {
            self.scpi_stb()
        }
    }
    fn sre(&self) -> u8 {
        self.sre
    }
    fn set_sre(&mut self, value: u8) {
        self.sre = value
    }
    fn esr(&self) -> u8 {
        self.esr
    }
    fn set_esr(&mut self, value: u8) {
        self.esr = value
    }
    fn ese(&self) -> u8 {
        self.ese
    }
    fn set_ese(&mut self, value: u8) {
        self.ese = value
    }
    fn tst(&mut self) -> Result<()> {
        if self.tst_code == 0 {
            Ok(())
        } else {
            Err(build_err(&ErrSpec {
                code: self.tst_code,
                ext: None,
                msg: 0,
            }))
        }
    }
    fn rst(&mut self) -> Result<()> {
        Ok(())
    }
    fn cls(&mut self) -> Result<()> {
        self.scpi_cls()
    }
    fn opc(&mut self) -> Result<()> {
        self.scpi_opc()
    }
}

impl GetEventRegister<Operation> for SimDevice {
    fn register(&self) -> &EventRegister {
        &self.oper
    }
    fn register_mut(&mut self) -> &mut EventRegister {
        &mut self.oper
    }
}

impl GetEventRegister<Questionable> for SimDevice {
    fn register(&self) -> &EventRegister {
        &self.ques
    }
    fn register_mut(&mut self) -> &mut EventRegister {
        &mut self.ques
    }
}

impl ErrorQueue for SimDevice {
    fn push_back_error(&mut self, err: Error) {
        self.queue.push(err)
    }
    fn pop_front_error(&mut self) -> Option<Error> {
        self.queue.pop()
    }
    fn num_errors(&self) -> usize {
        self.queue.num()
    }
    fn clear_errors(&mut self) {
        self.queue.clear()
    }
    // is_empty: trait default (num_errors() == 0), as a user's device would get it
}

impl ScpiDevice for SimDevice {}

// ------------------------------------------------------------------------------------------
// Application handlers

#[derive(Copy, Clone, PartialEq, Debug, scpi_derive::ScpiEnum)]
pub enum SimEnum {
    #[scpi(mnemonic = b"BINary")]
    Binary,
    #[scpi(mnemonic = b"REAL")]
    Real,
    #[scpi(mnemonic = b"ASCii")]
    Ascii,
    #[scpi(mnemonic = b"CHANnel2")]
    Chan2,
}

pub struct SimHandler {
    pub id: usize,
}

/// hardware event through the public EventRegister API
pub fn apply_hw(reg: &mut EventRegister, op: &HwOp) {
    match op.op {
        HwKind::Set => reg.set_condition(op.value),
        HwKind::SetBits => reg.set_condition_bits(op.value),
        HwKind::ClearBits => reg.clear_condition_bits(op.value),
        HwKind::Enable => reg.enable = op.value,
    }
}

const ITER_CAP: usize = 100_000;

fn drive_spec(spec: channel_list::ChannelSpec) {
    let mut n = 0usize;
    for item in spec {
        n += 1;
        if n > ITER_CAP {
            panic!("verif: ChannelSpec iterator did not terminate");
        }
        if item.is_err() {
            break;
        }
    }
    let _ = spec.dimension();
    let _: core::result::Result<isize, _> = spec.try_into();
    let _: core::result::Result<usize, _> = spec.try_into();
    let _: core::result::Result<(isize, isize), _> = spec.try_into();
    let _: core::result::Result<(usize, usize), _> = spec.try_into();
    let _: core::result::Result<(isize, isize, isize), _> = spec.try_into();
    let _: core::result::Result<(usize, usize, usize), _> = spec.try_into();
}

fn drive_chanlist(l: channel_list::ChannelList) -> Result<usize> {
    let mut n = 0usize;
    for item in l {
        n += 1;
        if n > ITER_CAP {
            panic!("verif: ChannelList iterator did not terminate");
        }
        match item? {
            channel_list::Token::ChannelSpec(a) => drive_spec(a),
            channel_list::Token::ChannelRange(a, b) => {
                drive_spec(a);
                drive_spec(b);
            }
            channel_list::Token::PathName(_) => {}
            channel_list::Token::ModuleChannel(_, _) => {}
        }
    }
    Ok(n)
}

fn drive_numlist(l: numeric_list::NumericList) -> Result<usize> {
    let mut n = 0usize;
    for item in l {
        n += 1;
        if n > ITER_CAP {
            panic!("verif: NumericList iterator did not terminate");
        }
        match item? {
            numeric_list::Token::Numeric(a) => {
                let _ = f64::try_from(a);
                let _ = i32::try_from(a);
            }
            numeric_list::Token::NumericRange(a, b) => {
                let _ = f32::try_from(a);
                let _ = i64::try_from(b);
            }
        }
    }
    Ok(n)
}

macro_rules! typed_pull {
    ($params:expr, $req:expr, $t:ty) => {{
        if $req {
            $params.next_data::<$t>().map(|_| Some(()))
        } else {
            $params.next_optional_data::<$t>().map(|o| o.map(|_| ()))
        }
    }};
}

/// Perform one pull through the public `Parameters` API (library code, counted).
fn do_pull(params: &mut Parameters, pull: &Pull, was_armed: bool) -> (PullObs, Option<Error>) {
    use scpi::units::{ElectricPotential, Ratio, Time};
    let req = pull.req;
    let r: Result<Option<PullObs>> = alloc::library(was_armed, || match pull.ty {
        PullTy::Tok => {
            if req {
                params.next_token().map(|t| Some(alloc::harness(|| PullObs::Tok(obs_tok(&t)))))
            } else {
                params
                    .next_optional_token()
                    .map(|o| o.map(|t| alloc::harness(|| PullObs::Tok(obs_tok(&t)))))
            }
        }
        PullTy::NumList => {
            let l = if req {
                params.next_data::<numeric_list::NumericList>().map(Some)
            } else {
                params.next_optional_data::<numeric_list::NumericList>()
            }?;
            match l {
                Some(l) => drive_numlist(l).map(|n| Some(alloc::harness(|| PullObs::Value(format!("numlist[{}]", n))))),
                None => Ok(None),
            }
        }
        PullTy::ChanList => {
            let l = if req {
                params.next_data::<channel_list::ChannelList>().map(Some)
            } else {
                params.next_optional_data::<channel_list::ChannelList>()
            }?;
            match l {
                Some(l) => drive_chanlist(l).map(|n| Some(alloc::harness(|| PullObs::Value(format!("chanlist[{}]", n))))),
                None => Ok(None),
            }
        }
        other => {
            let r: Result<Option<()>> = match other {
                PullTy::U8 => typed_pull!(params, req, u8),
                PullTy::I8 => typed_pull!(params, req, i8),
                PullTy::U16 => typed_pull!(params, req, u16),
                PullTy::I16 => typed_pull!(params, req, i16),
                PullTy::U32 => typed_pull!(params, req, u32),
                PullTy::I32 => typed_pull!(params, req, i32),
                PullTy::U64 => typed_pull!(params, req, u64),
                PullTy::I64 => typed_pull!(params, req, i64),
                PullTy::Usize => typed_pull!(params, req, usize),
                PullTy::Isize => typed_pull!(params, req, isize),
                PullTy::F32 => typed_pull!(params, req, f32),
                PullTy::F64 => typed_pull!(params, req, f64),
                PullTy::Bool => typed_pull!(params, req, bool),
                PullTy::Bytes => typed_pull!(params, req, &[u8]),
                PullTy::Str => typed_pull!(params, req, &str),
                PullTy::Arb => typed_pull!(params, req, Arbitrary),
                PullTy::Chr => typed_pull!(params, req, Character),
                PullTy::Expr => typed_pull!(params, req, Expression),
                PullTy::Volt => typed_pull!(params, req, ElectricPotential),
                PullTy::Time => typed_pull!(params, req, Time),
                PullTy::AmpVolt => typed_pull!(params, req, Amplitude<ElectricPotential>),
                PullTy::DbRatio => typed_pull!(params, req, Db<f32, Ratio>),
                PullTy::NumValF32 => typed_pull!(params, req, NumericValue<f32>),
                PullTy::NumValU8 => typed_pull!(params, req, NumericValue<u8>),
                PullTy::Enum => typed_pull!(params, req, SimEnum),
                PullTy::Auto => typed_pull!(params, req, Auto),
                PullTy::Tok | PullTy::NumList | PullTy::ChanList => unreachable!(),
            };
            r.map(|o| o.map(|_| PullObs::Value(String::new())))
        }
    });
    match r {
        Ok(Some(o)) => (o, None),
        Ok(None) => (PullObs::Absent, None),
        Err(e) => (PullObs::Err(obs_err(&e)), Some(e)),
    }
}

fn write_datum(resp: &mut ResponseUnit, d: &Datum) {
    match d {
        Datum::I64(v) => {
            resp.data(*v);
        }
        Datum::U64(v) => {
            resp.data(*v);
        }
        Datum::I16(v) => {
            resp.data(*v);
        }
        Datum::U8(v) => {
            resp.data(*v);
        }
        Datum::F64(b) => {
            resp.data(f64::from_bits(*b));
        }
        Datum::F32(b) => {
            resp.data(f32::from_bits(*b));
        }
        Datum::Bool(v) => {
            resp.data(*v);
        }
        Datum::Str(s) => {
            resp.data(s.as_slice());
        }
        Datum::Arb(s) => {
            resp.data(Arbitrary(s.as_slice()));
        }
        Datum::Chr(s) => {
            resp.data(Character(s.as_bytes()));
        }
        Datum::Expr(s) => {
            resp.data(Expression(s.as_slice()));
        }
        Datum::Hex(v) => {
            resp.data(Hex(*v));
        }
        Datum::Oct(v) => {
            resp.data(Octal(*v));
        }
        Datum::Bin(v) => {
            resp.data(Binary(*v));
        }
        Datum::BinI8(v) => {
            resp.data(Binary(*v));
        }
        Datum::HexI16(v) => {
            resp.data(Hex(*v));
        }
        Datum::OctI64(v) => {
            resp.data(Octal(*v));
        }
        Datum::Utf8(s) => {
            resp.data(s.as_str());
        }
        Datum::Err(spec) => {
            resp.data(build_err(spec));
        }
        Datum::ArrList(v) => {
            let mut a: ArrayVec<i32, 8> = ArrayVec::new();
            for x in v.iter().take(8) {
                a.push(*x);
            }
            resp.data(a);
        }
        Datum::VecList(v) => {
            let l: Vec<u16> = alloc::harness(|| v.clone());
            resp.data(l);
        }
        Datum::ChrList(v) => {
            let l: Vec<Character> = alloc::harness(|| v.iter().map(|s| Character(s.as_bytes())).collect());
            resp.data(l);
        }
    }
}

/// Format one datum stand-alone through the library (used by the framing model so that C10
/// does not depend on value formatting).
pub fn datum_text(d: &Datum) -> core::result::Result<Vec<u8>, ErrObs> {
    // (formatting is library code: a panic in it must not take the harness down - the run of
    // the message itself will show it and is judged there)
    match std::panic::catch_unwind(|| datum_text_inner(d)) {
        Ok(r) => r,
        Err(_) => Err(ErrObs {
            code: 0,
            msg: B::from("<formatting this datum panicked>"),
            ext: Some(B::from(crate::exec::take_panic().as_str())),
        }),
    }
}

fn datum_text_inner(d: &Datum) -> core::result::Result<Vec<u8>, ErrObs> {
    let mut v: Vec<u8> = Vec::new();
    let r = match d {
        Datum::I64(x) => x.format_response_data(&mut v),
        Datum::U64(x) => x.format_response_data(&mut v),
        Datum::I16(x) => x.format_response_data(&mut v),
        Datum::U8(x) => x.format_response_data(&mut v),
        Datum::F64(b) => f64::from_bits(*b).format_response_data(&mut v),
        Datum::F32(b) => f32::from_bits(*b).format_response_data(&mut v),
        Datum::Bool(x) => x.format_response_data(&mut v),
        Datum::Str(s) => s.as_slice().format_response_data(&mut v),
        Datum::Arb(s) => Arbitrary(s.as_slice()).format_response_data(&mut v),
        Datum::Chr(s) => Character(s.as_bytes()).format_response_data(&mut v),
        Datum::Expr(s) => Expression(s.as_slice()).format_response_data(&mut v),
        Datum::Hex(x) => Hex(*x).format_response_data(&mut v),
        Datum::Oct(x) => Octal(*x).format_response_data(&mut v),
        Datum::Bin(x) => Binary(*x).format_response_data(&mut v),
        Datum::BinI8(x) => Binary(*x).format_response_data(&mut v),
        Datum::HexI16(x) => Hex(*x).format_response_data(&mut v),
        Datum::OctI64(x) => Octal(*x).format_response_data(&mut v),
        Datum::Utf8(s) => s.as_str().format_response_data(&mut v),
        Datum::Err(spec) => build_err(spec).format_response_data(&mut v),
        Datum::ArrList(l) => {
            let mut a: ArrayVec<i32, 8> = ArrayVec::new();
            for x in l.iter().take(8) {
                a.push(*x);
            }
            a.format_response_data(&mut v)
        }
        Datum::VecList(l) => l.format_response_data(&mut v),
        Datum::ChrList(l) => {
            let x: Vec<Character> = l.iter().map(|s| Character(s.as_bytes())).collect();
            x.format_response_data(&mut v)
        }
    };
    match r {
        Ok(()) => Ok(v),
        Err(e) => Err(obs_err(&e)),
    }
}

impl SimHandler {
    fn run(
        &self,
        dev: &mut SimDevice,
        params: &mut Parameters,
        mut resp: Option<ResponseUnit>,
    ) -> Result<()> {
        // everything in here is harness code except the calls made through `alloc::library`
        let was = alloc::set_armed(false);
        struct Restore(bool);
        impl Drop for Restore {
            fn drop(&mut self) {
                alloc::set_armed(self.0);
            }
        }
        let _restore = Restore(was);

        crate::exec::SIM_CALLS.with(|c| c.set(c.get() + 1));
        let idx = dev.sim.calls.len();
        let (plan, planned) = match dev.sim.plans.get(idx) {
            Some(p) => (p.clone(), true),
            None => (Plan::default(), false),
        };
        dev.sim.calls.push(CallObs {
            h: self.id,
            query: resp.is_some(),
            pulls: Vec::new(),
            hdr_written: 0,
            data_written: 0,
            ret: None,
            finished: false,
            planned,
        });

        macro_rules! fail_if {
            ($phase:expr) => {
                if let Some(f) = &plan.fail {
                    if f.phase == $phase {
                        let e = build_err(&f.err);
                        dev.sim.calls[idx].ret = Some(obs_err(&e));
                        dev.sim.calls[idx].finished = true;
                        return Err(e);
                    }
                }
            };
        }

        if let Some(hw) = &plan.hw {
            let hw = *hw;
            let reg = dev.reg(hw.reg);
            alloc::library(was, || apply_hw(reg, &hw));
        }

        fail_if!(Phase::Before);
        for (j, pull) in plan.pulls.iter().enumerate() {
            let (obs, err) = do_pull(params, pull, was);
            dev.sim.calls[idx].pulls.push(obs);
            if let Some(e) = err {
                if plan.swallow {
                    // a tolerant handler: notes the problem and carries on
                    continue;
                }
                dev.sim.calls[idx].ret = Some(obs_err(&e));
                dev.sim.calls[idx].finished = true;
                return Err(e);
            }
            fail_if!(Phase::AfterPull(j));
        }
        fail_if!(Phase::AfterPulls);
        if let Some(resp) = resp.as_mut() {
            for h in &plan.hdr {
                alloc::library(was, || {
                    resp.header(h.as_bytes());
                });
                dev.sim.calls[idx].hdr_written += 1;
            }
            for (k, d) in plan.data.iter().enumerate() {
                alloc::library(was, || write_datum(resp, d));
                dev.sim.calls[idx].data_written += 1;
                if plan.finish_each {
                    let r = alloc::library(was, || resp.finish());
                    if let Err(e) = &r {
                        if !plan.finish_ignore {
                            dev.sim.calls[idx].ret = Some(obs_err(e));
                            dev.sim.calls[idx].finished = true;
                            return r;
                        }
                    }
                }
                fail_if!(Phase::AfterDatum(k));
            }
            let r = alloc::library(was, || resp.finish());
            dev.sim.calls[idx].finished = true;
            if let Err(e) = &r {
                dev.sim.calls[idx].ret = Some(obs_err(e));
            }
            return r;
        }
        dev.sim.calls[idx].finished = true;
        Ok(())
    }
}

impl Command<SimDevice> for SimHandler {
    /// the hint is "not actually binding in any way": every handler implements both forms whatever
    /// it advertises
    fn meta(&self) -> CommandTypeMeta {
        match self.id % 4 {
            0 => CommandTypeMeta::Unknown,
            1 => CommandTypeMeta::NoQuery,
            2 => CommandTypeMeta::QueryOnly,
            _ => CommandTypeMeta::Both,
        }
    }

    fn event(&self, device: &mut SimDevice, _context: &mut Context, mut params: Parameters) -> Result<()> {
        self.run(device, &mut params, None)
    }

    fn query(
        &self,
        device: &mut SimDevice,
        _context: &mut Context,
        mut params: Parameters,
        response: ResponseUnit,
    ) -> Result<()> {
        self.run(device, &mut params, Some(response))
    }
}

// ------------------------------------------------------------------------------------------
// Real tree construction

/// The mandated part of the tree, built with the crate's own macros (const context, like the
/// example does).
const MANDATED: &[Node<'static, SimDevice>] = &[
    ieee488_cls!(),
    ieee488_ese!(),
    ieee488_esr!(),
    ieee488_idn!(b"SimCo", b"S100", b"0", b"1.0"),
    ieee488_opc!(),
    ieee488_rst!(),
    ieee488_sre!(),
    ieee488_stb!(),
    ieee488_tst!(),
    ieee488_wai!(),
    scpi_status!(),
    scpi_system!(),
];

pub const IDN_RESPONSE: &[u8] = b"SimCo,S100,0,1.0";

use scpi_contrib::scpi1999::status::{operation::*, questionable::*, StatPresetCommand};

/// Same mandated command set, but the STATus sub-tree is written out by hand with the public
/// per-register command aliases (what a device that adds its own nodes to STATus would do).
const MANDATED_ALIAS: &[Node<'static, SimDevice>] = &[
    ieee488_cls!(),
    ieee488_ese!(),
    ieee488_esr!(),
    ieee488_idn!(b"SimCo", b"S100", b"0", b"1.0"),
    ieee488_opc!(),
    ieee488_rst!(),
    ieee488_sre!(),
    ieee488_stb!(),
    ieee488_tst!(),
    ieee488_wai!(),
    Node::Branch {
        name: b"STATus",
        default: false,
        sub: &[
            Node::Branch {
                name: b"OPERation",
                default: false,
                sub: &[
                    Node::Leaf { name: b"EVENt", default: true, handler: &StatOperEventCommand::new() },
                    Node::Leaf { name: b"CONDition", default: false, handler: &StatOperConditionCommand::new() },
                    Node::Leaf { name: b"ENABle", default: false, handler: &StatOperEnableCommand::new() },
                    Node::Leaf { name: b"NTRansition", default: false, handler: &StatOperNTransitionCommand::new() },
                    Node::Leaf { name: b"PTRansition", default: false, handler: &StatOperPTransitionCommand::new() },
                ],
            },
            Node::Branch {
                name: b"QUEStionable",
                default: false,
                sub: &[
                    Node::Leaf { name: b"EVENt", default: true, handler: &StatQuesEventCommand::new() },
                    Node::Leaf { name: b"CONDition", default: false, handler: &StatQuesConditionCommand::new() },
                    Node::Leaf { name: b"ENABle", default: false, handler: &StatQuesEnableCommand::new() },
                    Node::Leaf { name: b"NTRansition", default: false, handler: &StatQuesNTransitionCommand::new() },
                    Node::Leaf { name: b"PTRansition", default: false, handler: &StatQuesPTransitionCommand::new() },
                ],
            },
            Node::Leaf { name: b"PRESet", default: false, handler: &StatPresetCommand },
        ],
    },
    scpi_system!(),
];

fn copy_node(n: &Node<'static, SimDevice>) -> Node<'static, SimDevice> {
    match n {
        Node::Leaf { name, default, handler } => Node::Leaf {
            name,
            default: *default,
            handler: *handler,
        },
        Node::Branch { name, default, sub } => Node::Branch {
            name,
            default: *default,
            sub,
        },
    }
}

fn leak_name(s: &str) -> &'static [u8] {
    Box::leak(s.as_bytes().to_vec().into_boxed_slice())
}

fn build_app(t: &TNode, ctor: bool) -> Node<'static, SimDevice> {
    match t {
        TNode::Leaf { name, default, h } => {
            let handler: &'static SimHandler = Box::leak(Box::new(SimHandler { id: *h }));
            if ctor {
                // through the public const constructors
                if *default {
                    Node::default_leaf(leak_name(name), handler)
                } else {
                    Node::leaf(leak_name(name), handler)
                }
            } else {
                Node::Leaf {
                    name: leak_name(name),
                    default: *default,
                    handler,
                }
            }
        }
        TNode::Branch { name, default, sub } => {
            let v: Vec<Node<'static, SimDevice>> = sub.iter().map(|c| build_app(c, ctor)).collect();
            let sub: &'static [Node<'static, SimDevice>] = Box::leak(v.into_boxed_slice());
            if ctor {
                if *default {
                    Node::default_branch(leak_name(name), sub)
                } else {
                    Node::branch(leak_name(name), sub)
                }
            } else {
                Node::Branch {
                    name: leak_name(name),
                    default: *default,
                    sub,
                }
            }
        }
    }
}

struct SharedTree(&'static Node<'static, SimDevice>);
// The tree only holds `&'static` references to stateless handlers (SimHandler { id } and the
// crate's unit-struct commands); sharing it between worker threads is sound.
unsafe impl Send for SharedTree {}
unsafe impl Sync for SharedTree {}

static TREE_CACHE: std::sync::Mutex<Option<std::collections::HashMap<u64, Vec<(TreeDesc, SharedTree)>>>> = std::sync::Mutex::new(None);

/// A tree built entirely with the crate's own tree macros, including the
/// `Branch![name => handler; children]` arm (executable branch) and default nodes.
#[allow(unused_imports)]
use scpi::{Branch, Leaf, Root};

pub const MACRO_TREE: Node<'static, SimDevice> = scpi::Root![
    scpi::Leaf![b"*MAC" => &SimHandler { id: 0 }],
    scpi::Branch![b"CONFigure" => &SimHandler { id: 1 };
        scpi::Leaf![b"VOLTage" => &SimHandler { id: 2 }],
        scpi::Branch![default b"SCALar";
            scpi::Leaf![default b"DC" => &SimHandler { id: 3 }],
            scpi::Leaf![b"AC" => &SimHandler { id: 4 }]
        ]
    ],
    scpi::Branch![b"TRIGger2" => &SimHandler { id: 5 };
        scpi::Leaf![b"SOURce" => &SimHandler { id: 6 }],
        scpi::Branch![b"SEQuence"; scpi::Leaf![b"LEVel" => &SimHandler { id: 7 }]]
    ],
    scpi::Branch![b"OUTPut";
        scpi::Leaf![default b"STATe" => &SimHandler { id: 8 }],
        scpi::Leaf![b"LEVel" => &SimHandler { id: 9 }]
    ]
];

/// Build (and leak) the real command tree for a description; identical descriptions share one
/// tree (bounded leak).
pub fn build_tree(desc: &TreeDesc) -> &'static Node<'static, SimDevice> {
    if desc.fixed.as_deref() == Some("macro") {
        const T: &Node<'static, SimDevice> = &MACRO_TREE;
        return T;
    }
    let key = crate::rng::fnv1a(serde_json::to_string(desc).unwrap_or_default().as_bytes());
    let mut guard = TREE_CACHE.lock().unwrap();
    let map = guard.get_or_insert_with(std::collections::HashMap::new);
    if let Some(v) = map.get(&key) {
        if let Some((_, t)) = v.iter().find(|(d, _)| d == desc) {
            return t.0;
        }
    }
    let t = build_tree_uncached(desc, key);
    map.entry(key).or_default().push((desc.clone(), SharedTree(t)));
    t
}

fn build_tree_uncached(desc: &TreeDesc, key: u64) -> &'static Node<'static, SimDevice> {
    // how the tree is put together varies with the description (deterministically): struct
    // literals or the public const constructors; STATus built by `scpi_status!()` or by hand
    // from the documented `StatOper*Command` / `StatQues*Command` aliases
    let ctor = key & 1 == 1;
    let aliases = key & 2 == 2;
    let mut v: Vec<Node<'static, SimDevice>> = Vec::new();
    if desc.mandated {
        for n in if aliases { MANDATED_ALIAS } else { MANDATED } {
            v.push(copy_node(n));
        }
    }
    for t in &desc.app {
        v.push(build_app(t, ctor));
    }
    let sub: &'static [Node<'static, SimDevice>] = Box::leak(v.into_boxed_slice());
    if ctor {
        Box::leak(Box::new(Node::root(sub)))
    } else {
        Box::leak(Box::new(Node::Branch {
            name: b"",
            default: false,
            sub,
        }))
    }
}
