//! Executor: runs trace steps against the real library and records everything observable.

use std::cell::Cell;
use std::panic::{catch_unwind, AssertUnwindSafe};

use scpi::error::{Error, Result};
use scpi::parser::response::{Formatter, ResponseUnit};
use scpi::parser::tokenizer::Tokenizer;
use scpi::tree::Node;
use scpi::Context;

use crate::alloc;
use crate::device::*;
use crate::model::{ModelState, QueueModel, RegModel};
use crate::msg::{apply_corruption, render};
use crate::tree::{model_root, resolve, MNode, Resolved, H};
use crate::types::*;

include!(concat!(env!("OUT_DIR"), "/array_dispatch.rs"));

thread_local! {
    pub static PANIC_MSG: Cell<Option<String>> = const { Cell::new(None) };
    pub static SIM_CALLS: Cell<usize> = const { Cell::new(0) };
}

/// Install a silent panic hook that records message + location in a thread local.
pub fn install_panic_hook() {
    std::panic::set_hook(Box::new(|info| {
        let _s = alloc::Suspend::new();
        let msg = if let Some(s) = info.payload().downcast_ref::<&str>() {
            s.to_string()
        } else if let Some(s) = info.payload().downcast_ref::<String>() {
            s.clone()
        } else {
            "<non-string panic>".to_string()
        };
        let loc = info
            .location()
            .map(|l| format!("{}:{}", l.file(), l.line()))
            .unwrap_or_default();
        PANIC_MSG.with(|p| p.set(Some(format!("{} @ {}", msg, loc))));
    }));
}

pub fn take_panic() -> String {
    PANIC_MSG.with(|p| p.take()).unwrap_or_else(|| "<unknown panic>".to_string())
}

// ------------------------------------------------------------------------------------------
// Fault-injecting formatter (needs hook `verif-hooks`: ResponseUnit::verif_new)

pub struct FaultyFormatter {
    pub buf: Vec<u8>,
    pub calls: usize,
    pub at: usize,
    pub err: Error,
    pub persistent: bool,
    pub fired: usize,
    pub sim_calls_at_fire: Option<usize>,
    pub first_fire_call: Option<&'static str>,
}

impl FaultyFormatter {
    fn tick(&mut self, what: &'static str) -> Result<()> {
        let k = self.calls;
        self.calls += 1;
        if k == self.at || (self.persistent && k > self.at) {
            if self.fired == 0 {
                self.sim_calls_at_fire = Some(SIM_CALLS.with(|c| c.get()));
                self.first_fire_call = Some(what);
            }
            self.fired += 1;
            return Err(self.err);
        }
        Ok(())
    }
}

impl Formatter for FaultyFormatter {
    fn push_str(&mut self, s: &[u8]) -> Result<()> {
        self.tick("push_str")?;
        alloc::harness(|| self.buf.extend_from_slice(s));
        Ok(())
    }
    fn push_byte(&mut self, b: u8) -> Result<()> {
        self.tick("push_byte")?;
        alloc::harness(|| self.buf.push(b));
        Ok(())
    }
    fn as_slice(&self) -> &[u8] {
        &self.buf
    }
    fn clear(&mut self) {
        self.buf.clear()
    }
    fn len(&self) -> usize {
        self.buf.len()
    }
    fn message_start(&mut self) -> Result<()> {
        self.tick("message_start")
    }
    fn message_end(&mut self) -> Result<()> {
        self.tick("message_end")?;
        alloc::harness(|| self.buf.push(b'\n'));
        Ok(())
    }
    fn response_unit(&mut self) -> Result<ResponseUnit> {
        self.tick("response_unit")?;
        if !self.buf.is_empty() {
            alloc::harness(|| self.buf.push(b';'));
        }
        Ok(ResponseUnit::verif_new(self))
    }
}

// ------------------------------------------------------------------------------------------

#[derive(Clone, Debug, PartialEq)]
pub struct RegSnap {
    pub cond: u16,
    pub event: u16,
    pub enable: u16,
    pub ptr: u16,
    pub ntr: u16,
}

#[derive(Clone, Debug, PartialEq)]
pub struct DevSnap {
    pub esr: u8,
    pub ese: u8,
    pub sre: u8,
    pub oper: RegSnap,
    pub ques: RegSnap,
    pub queue: Vec<ErrObs>,
    pub num_errors: usize,
    pub is_empty: bool,
}

#[derive(Clone, Debug)]
pub struct FireInfo {
    pub sim_calls_at_fire: usize,
    pub call: &'static str,
    pub fired: usize,
}

#[derive(Clone, Debug)]
pub struct SendObs {
    pub bytes: Vec<u8>,
    pub mav: bool,
    pub result: core::result::Result<(), ErrObs>,
    pub panic: Option<String>,
    pub hook: Vec<ErrObs>,
    pub calls: Vec<CallObs>,
    pub out: Vec<u8>,
    pub allocs: u64,
    pub alloc_bytes: u64,
    pub fmt_calls: usize,
    pub fire: Option<FireInfo>,
    pub dev: DevSnap,
    pub dev_before: DevSnap,
    /// Err(description) if the public Tokenizer iterator failed to make progress on these bytes
    pub lexer_progress: core::result::Result<usize, String>,
    /// first lexical error in the message (unit index, error), judged by the public tokenizer
    pub lex_err: Option<(usize, ErrObs)>,
    pub plans_given: usize,
}

#[derive(Clone, Debug)]
pub enum QObs {
    Pushed,
    Popped(Option<ErrObs>),
    Cleared,
    Len(usize),
    IsEmpty(bool),
}

pub struct World {
    pub cfg: Config,
    pub root: MNode,
    pub tree: &'static Node<'static, SimDevice>,
    pub dev: SimDevice,
    /// per controller: unread response bytes
    pub outq: Vec<Vec<u8>>,
    /// content already in the response buffer handed to the next `exec_send` (consumed by it)
    pub prefill: Vec<u8>,
    /// one Context per controller, kept for the whole run (as an interface driver would)
    pub ctxs: Vec<Context<'static>>,
}

fn snap_reg(r: &scpi_contrib::scpi1999::EventRegister) -> RegSnap {
    RegSnap {
        cond: r.condition,
        event: r.event,
        enable: r.enable,
        ptr: r.ptr_filter,
        ntr: r.ntr_filter,
    }
}

impl World {
    pub fn new(cfg: &Config) -> Option<World> {
        let mut dev = SimDevice::new(&cfg.queue)?;
        dev.plain_stb = cfg.plain488;
        Some(World {
            cfg: cfg.clone(),
            root: model_root(&cfg.tree),
            tree: build_tree(&cfg.tree),
            dev,
            outq: vec![Vec::new(); cfg.controllers.max(1) as usize],
            prefill: Vec::new(),
            ctxs: (0..cfg.controllers.max(1)).map(|_| Context::new()).collect(),
        })
    }

    /// Same world (shares the leaked tree) with a fresh power-on device.
    pub fn fresh_like(&self) -> World {
        World {
            cfg: self.cfg.clone(),
            root: self.root.clone(),
            tree: self.tree,
            dev: {
                let mut d = SimDevice::new(&self.cfg.queue).unwrap();
                d.plain_stb = self.cfg.plain488;
                d
            },
            outq: vec![Vec::new(); self.cfg.controllers.max(1) as usize],
            prefill: Vec::new(),
            ctxs: (0..self.cfg.controllers.max(1)).map(|_| Context::new()).collect(),
        }
    }

    pub fn snap(&self) -> DevSnap {
        use scpi::error::ErrorQueue;
        DevSnap {
            esr: self.dev.esr,
            ese: self.dev.ese,
            sre: self.dev.sre,
            oper: snap_reg(&self.dev.oper),
            ques: snap_reg(&self.dev.ques),
            queue: self.dev.queue.contents(),
            num_errors: self.dev.num_errors(),
            is_empty: ErrorQueue::is_empty(&self.dev),
        }
    }

    /// Model state equal to what the device shows right now ("adopt").
    pub fn adopt(&self) -> ModelState {
        let s = self.snap();
        let reg = |r: &RegSnap| RegModel {
            cond: r.cond,
            event: r.event,
            enable: r.enable,
            ptr: r.ptr,
            ntr: r.ntr,
            cond_unknown: false,
        };
        let mut q = QueueModel::new(&self.cfg.queue);
        q.items = s.queue.clone();
        ModelState {
            esr: s.esr,
            ese: s.ese,
            sre: s.sre,
            oper: reg(&s.oper),
            ques: reg(&s.ques),
            queue: q,
            tst_code: self.dev.tst_code,
            outq: self.outq.iter().map(|o| !o.is_empty()).collect(),
            plain488: self.cfg.plain488,
            no_mav: self.cfg.no_mav,
            prefill: self.prefill.clone(),
        }
    }

    pub fn message_bytes(step: &SendStep) -> Vec<u8> {
        let mut bytes = render(&step.msg);
        for c in &step.corrupt {
            apply_corruption(&mut bytes, c);
        }
        bytes
    }

    /// Plans for the SimHandler invocations of this message, in order (k-th invocation <-> k-th
    /// entry), derived with the model resolver.
    pub fn plans_for(&self, msg: &Msg) -> Vec<Plan> {
        let mut plans = Vec::new();
        let mut level: Vec<usize> = Vec::new();
        for (i, u) in msg.units.iter().enumerate() {
            if u.hfault.is_some() {
                continue;
            }
            match resolve(&self.root, &level, i == 0, u.colon, &u.path) {
                Resolved::Leaf { h, level: l } => {
                    level = l;
                    if let H::Sim(_) = h {
                        plans.push(u.plan.clone());
                    }
                }
                Resolved::Undefined => {}
            }
        }
        plans
    }

    pub fn exec_send(&mut self, step: &SendStep) -> SendObs {
        let bytes = Self::message_bytes(step);
        let ctl = (step.ctl as usize).min(self.outq.len() - 1);
        let mav = !self.cfg.no_mav && !self.outq[ctl].is_empty();
        let dev_before = self.snap();
        let plans = self.plans_for(&step.msg);
        let plans_given = plans.len();
        self.dev.sim = SimState {
            plans,
            calls: Vec::new(),
            hook: Vec::new(),
            calls_at_fire: None,
        };
        SIM_CALLS.with(|c| c.set(0));
        // the interface driver updates MAV before handing the message over - unless it does not
        // support MAV at all, in which case the field is never touched
        if !self.cfg.no_mav {
            self.ctxs[ctl].mav = mav;
        }
        let ctx = &mut self.ctxs[ctl];

        let tree = self.tree;
        let prefill = std::mem::take(&mut self.prefill);
        let dev = &mut self.dev;
        let mut out: Vec<u8> = Vec::new();
        let mut fmt_calls = 0usize;
        let mut fire = None;
        alloc::reset();
        let r = catch_unwind(AssertUnwindSafe(|| match &step.fmt {
            FmtCfg::Vec => {
                let mut f: Vec<u8> = prefill.clone();
                alloc::set_armed(true);
                let r = tree.run(&bytes, dev, ctx, &mut f);
                alloc::set_armed(false);
                out = f;
                r
            }
            FmtCfg::Array { cap } => {
                alloc::set_armed(true);
                let r = run_array(*cap, tree, &bytes, dev, ctx, &prefill);
                alloc::set_armed(false);
                match r {
                    Some((r, o)) => {
                        out = o;
                        r
                    }
                    None => panic!("verif-harness: unsupported formatter capacity {}", cap),
                }
            }
            FmtCfg::Faulty { at, err, persistent } => {
                let mut f = FaultyFormatter {
                    buf: Vec::new(),
                    calls: 0,
                    at: *at,
                    err: build_err(err),
                    persistent: *persistent,
                    fired: 0,
                    sim_calls_at_fire: None,
                    first_fire_call: None,
                };
                alloc::set_armed(true);
                let r = tree.run(&bytes, dev, ctx, &mut f);
                alloc::set_armed(false);
                fmt_calls = f.calls;
                if f.fired > 0 {
                    fire = Some(FireInfo {
                        sim_calls_at_fire: f.sim_calls_at_fire.unwrap_or(0),
                        call: f.first_fire_call.unwrap_or(""),
                        fired: f.fired,
                    });
                }
                out = f.buf;
                r
            }
        }));
        alloc::set_armed(false);
        let allocs = alloc::count();
        let alloc_bytes = alloc::bytes();
        let (result, panic) = match r {
            Ok(Ok(())) => (Ok(()), None),
            Ok(Err(e)) => (Err(obs_err(&e)), None),
            Err(_) => (
                Err(ErrObs {
                    code: 0,
                    msg: B::from("<panic>"),
                    ext: None,
                }),
                Some(take_panic()),
            ),
        };
        let hook = std::mem::take(&mut self.dev.sim.hook);
        let calls = std::mem::take(&mut self.dev.sim.calls);
        if result.is_ok() && panic.is_none() {
            self.outq[ctl].extend_from_slice(&out);
        }
        let lexer_progress = lexer_progress(&bytes);
        let lex_err = first_lexical_error(&bytes);
        SendObs {
            bytes,
            mav,
            result,
            panic,
            hook,
            calls,
            out,
            allocs,
            alloc_bytes,
            fmt_calls,
            fire,
            dev: self.snap(),
            dev_before,
            lexer_progress,
            lex_err,
            plans_given,
        }
    }

    pub fn exec_read(&mut self, ctl: u8) {
        let ctl = (ctl as usize).min(self.outq.len() - 1);
        self.outq[ctl].clear();
    }

    pub fn exec_hw(&mut self, op: &HwOp) {
        apply_hw(self.dev.reg(op.reg), op);
    }

    pub fn exec_tst(&mut self, code: i16) {
        self.dev.tst_code = code;
    }

    pub fn exec_q(&mut self, op: &QOp) -> core::result::Result<QObs, String> {
        use scpi::error::ErrorQueue;
        let dev = &mut self.dev;
        let r = catch_unwind(AssertUnwindSafe(|| match op {
            QOp::Push(spec) => {
                dev.push_back_error(build_err(spec));
                QObs::Pushed
            }
            QOp::Pop => QObs::Popped(dev.pop_front_error().map(|e| obs_err(&e))),
            QOp::Clear => {
                dev.clear_errors();
                QObs::Cleared
            }
            QOp::Len => QObs::Len(dev.num_errors()),
            QOp::IsEmpty => QObs::IsEmpty(ErrorQueue::is_empty(dev)),
        }));
        r.map_err(|_| take_panic())
    }
}

/// Drive the public Tokenizer iterator over `bytes`: every successful token must consume at
/// least one byte, and at most len+1 tokens can be produced.
/// The first error the public tokenizer reports for these bytes, with the index of the message
/// unit it is in (= number of unit separators lexed before it). None: lexically clean (or the
/// tokenizer panicked, which `lexer_progress` reports).
pub fn first_lexical_error(bytes: &[u8]) -> Option<(usize, ErrObs)> {
    catch_unwind(AssertUnwindSafe(|| {
        let mut units = 0usize;
        let mut n = 0usize;
        for t in Tokenizer::new(bytes) {
            match t {
                Ok(scpi::parser::tokenizer::Token::ProgramMessageUnitSeparator) => units += 1,
                Ok(_) => {}
                Err(e) => return Some((units, obs_err(&Error::new(e)))),
            }
            n += 1;
            if n > bytes.len() + 1 {
                return None;
            }
        }
        None
    }))
    .unwrap_or(None)
}

pub fn lexer_progress(bytes: &[u8]) -> core::result::Result<usize, String> {
    let r = catch_unwind(AssertUnwindSafe(|| {
        let mut t = Tokenizer::new(bytes);
        let mut n = 0usize;
        loop {
            let before = t.chars.as_slice().len();
            match t.next() {
                None => return Ok(n),
                Some(Err(_)) => return Ok(n),
                Some(Ok(_)) => {
                    n += 1;
                    let after = t.chars.as_slice().len();
                    if after >= before {
                        return Err(format!("token {} consumed no input at offset {}", n, bytes.len() - before));
                    }
                    if n > bytes.len() + 1 {
                        return Err("more tokens than bytes".to_string());
                    }
                }
            }
        }
    }));
    match r {
        Ok(x) => x,
        Err(_) => Err(format!("tokenizer panicked: {}", take_panic())),
    }
}
