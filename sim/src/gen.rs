//! Workload generation helpers shared by the property modules: spelling headers for a target
//! leaf (absolute / relative, default nodes omitted or spelled), application units with plans,
//! header near-misses (F4), the IEEE 488.2 syntax-fault catalogue (F3), transport corruption
//! (F7), response data.

use crate::msg::*;
use crate::rng::Rng;
use crate::tree::*;
use crate::types::*;

fn pickb<'a>(rng: &mut Rng, xs: &[&'a [u8]]) -> &'a [u8] {
    xs[rng.usize_below(xs.len())]
}

pub struct TreeCtx {
    pub root: MNode,
    pub leaves: Vec<LeafInfo>,
    pub sim_leaves: Vec<usize>,
}

impl TreeCtx {
    pub fn new(desc: &TreeDesc) -> TreeCtx {
        let root = model_root(desc);
        let leaves = all_leaves(&root);
        let sim_leaves = leaves
            .iter()
            .enumerate()
            .filter(|(_, l)| matches!(l.h, H::Sim(_)))
            .map(|(i, _)| i)
            .collect();
        TreeCtx { root, leaves, sim_leaves }
    }

    pub fn contrib_leaf(&self, c: Contrib) -> Option<&LeafInfo> {
        self.leaves.iter().find(|l| l.h == H::Contrib(c))
    }
}

/// Spell a header designating `leaf`. Tries a relative spelling from `level` when allowed,
/// omits default nodes at random, and verifies the result with the model resolver; falls back
/// to the fully spelled absolute header.
pub fn spell_header(
    rng: &mut Rng,
    tc: &TreeCtx,
    leaf: &LeafInfo,
    level: &[usize],
    first: bool,
    omit_defaults_pct: u64,
) -> (bool, Vec<String>) {
    // chain of nodes from the root to the leaf
    let mut chain: Vec<&MNode> = Vec::new();
    let mut n = &tc.root;
    for i in &leaf.path {
        n = &n.children()[*i];
        chain.push(n);
    }
    let is_common = chain.len() == 1 && chain[0].name.starts_with('*');
    if is_common {
        return (false, vec![spell(rng, &chain[0].name)]);
    }
    for attempt in 0..4 {
        let relative = !first && attempt < 2 && rng.chance(2, 3) && leaf.path.len() > level.len() && leaf.path[..level.len()] == *level;
        let start = if relative { level.len() } else { 0 };
        let colon = if relative { false } else { first && rng.chance(1, 4) || !first };
        let mut path: Vec<String> = Vec::new();
        for node in &chain[start..] {
            let omit = node.name.is_empty() || (node.default && attempt < 3 && rng.chance(omit_defaults_pct, 100));
            if omit {
                continue;
            }
            path.push(spell(rng, &node.name));
        }
        if path.is_empty() {
            continue;
        }
        let colon = if first { colon } else if relative { false } else { true };
        match resolve(&tc.root, level, first, colon, &path) {
            Resolved::Leaf { h, .. } if h == leaf.h => return (colon, path),
            _ => continue,
        }
    }
    // fully spelled absolute header (anonymous nodes cannot be spelled)
    let path: Vec<String> = chain
        .iter()
        .filter(|n| !n.name.is_empty())
        .map(|n| spell(rng, &n.name))
        .collect();
    (!first, path)
}

/// Level (parent branch of the last explicitly named node) a header leaves behind, per model.
pub fn level_after(tc: &TreeCtx, level: &[usize], first: bool, colon: bool, path: &[String]) -> Option<Vec<usize>> {
    match resolve(&tc.root, level, first, colon, path) {
        Resolved::Leaf { level, .. } => Some(level),
        Resolved::Undefined => None,
    }
}

// ------------------------------------------------------------------------------------------
// Response data

pub fn gen_datum(rng: &mut Rng, uniq: &mut u32) -> Datum {
    *uniq += 1;
    let u = *uniq;
    // one datum in 24: a value at the edge of its type, decimal and non-decimal forms, signed
    // and unsigned (the widest text a FORMATTED_SIZE buffer has to hold)
    if rng.chance(1, 24) {
        return match rng.below(14) {
            0 => Datum::I64(i64::MIN),
            1 => Datum::I64(i64::MAX),
            2 => Datum::U64(u64::MAX),
            3 => Datum::I16(*rng.pick(&[i16::MIN, i16::MAX, -1])),
            4 => Datum::U8(255),
            5 => Datum::Hex(*rng.pick(&[u32::MAX, 0, 0x8000_0000])),
            6 => Datum::Oct(*rng.pick(&[u16::MAX, 0, 0x8000])),
            7 => Datum::Bin(*rng.pick(&[255u8, 0, 128])),
            8 => Datum::BinI8(*rng.pick(&[i8::MIN, i8::MAX, -1, 0, 1])),
            9 => Datum::HexI16(*rng.pick(&[i16::MIN, i16::MAX, -1, 0, 1])),
            10 => Datum::OctI64(*rng.pick(&[i64::MIN, i64::MAX, -1, 0, 1])),
            11 => Datum::BinI8((u % 256) as u8 as i8),
            12 => Datum::HexI16((u.wrapping_mul(40503) % 65536) as u16 as i16),
            _ => Datum::OctI64((u as i64).wrapping_mul(0x9E37_79B9_7F4A_7C15u64 as i64)),
        };
    }
    match rng.below(18) {
        17 => Datum::ChrList(
            (0..rng.urange(1, 4))
                .map(|k| if rng.chance(1, 3) { String::new() } else { format!("L{}X{}", u, k) })
                .collect(),
        ),
        14 => {
            let msg = rng.below(8) as u8;
            Datum::Err(ErrSpec {
                code: *rng.pick(&[-100i16, -222, -300, -350, 0, 7, -800, -113]),
                ext: if msg != 6 && rng.chance(1, 2) { Some(rng.below(16) as u8) } else { None },
                msg,
            })
        }
        15 => Datum::ArrList((0..rng.urange(1, 5)).map(|k| (u as i32) * 10 + k as i32 - 3).collect()),
        16 => Datum::VecList((0..rng.urange(1, 5)).map(|k| (u as u16).wrapping_mul(7).wrapping_add(k as u16)).collect()),
        0 => Datum::I64(-(u as i64) * 3),
        1 => Datum::U64(u as u64 * 1000 + rng.below(1000)),
        2 => Datum::I16((u % 30000) as i16),
        3 => Datum::U8((u % 256) as u8),
        4 => Datum::F64((u as f64 * 0.5).to_bits()),
        5 => Datum::F32((u as f32 * 1.25).to_bits()),
        6 => Datum::Bool(rng.chance(1, 2)),
        7 => {
            let mut s: Vec<u8> = format!("s{}", u).into_bytes();
            for _ in 0..rng.usize_below(6) {
                s.push(*rng.pick(&[b';', b',', b'"', b' ', b'x', b'\'', b':']));
            }
            match rng.below(24) {
                // long texts with string delimiters anywhere (chunked copying, length counters)
                0 | 1 | 2 => {
                    let len = *rng.pick(&[15usize, 16, 17, 31, 32, 33, 63, 64, 65, 127, 128, 129, 255, 256, 257, 300]) + rng.usize_below(3);
                    while s.len() < len {
                        s.push(b'a' + (s.len() % 26) as u8);
                    }
                    s.truncate(len);
                    for _ in 0..rng.urange(1, 3) {
                        // (often right at / next to a power of two)
                        let pos = if rng.chance(1, 2) {
                            let p2 = *rng.pick(&[8usize, 16, 32, 64, 128, 256]);
                            (p2 + rng.usize_below(3)).saturating_sub(2)
                        } else {
                            rng.usize_below(len.max(1))
                        };
                        if pos < s.len() {
                            s[pos] = b'"';
                        }
                    }
                }
                // not ASCII: cannot be sent as string data, the handler's finish() reports it
                3 => {
                    let pos = rng.usize_below(s.len());
                    s[pos] = *rng.pick(&[0xe9u8, 0x80, 0xff]);
                }
                _ => {}
            }
            Datum::Str(B(s))
        }
        8 => {
            let mut s: Vec<u8> = format!("a{}", u).into_bytes();
            for _ in 0..rng.usize_below(8) {
                s.push(*rng.pick(&[b';', b',', b'\n', 0xff, 0x00, b'#', b'x', b'\r']));
            }
            if rng.chance(1, 4) {
                s.push(*rng.pick(&[b'\n', b';', b',', b'\r']));
            }
            Datum::Arb(B(s))
        }
        9 => Datum::Chr(format!("C{}", u)),
        10 => Datum::Expr(B(format!("@{},{}:{}", u, u + 1, u + 2).into_bytes())),
        11 => Datum::Hex(u),
        12 => Datum::Oct((u % 60000) as u16),
        _ => Datum::Bin((u % 256) as u8),
    }
}

pub fn gen_response_plan(rng: &mut Rng, uniq: &mut u32, max_data: usize) -> (Vec<String>, Vec<Datum>) {
    let nh = *rng.pick(&[0usize, 0, 0, 1, 2]);
    let mut hdr = Vec::new();
    for k in 0..nh {
        *uniq += 1;
        let stem = if k == 0 {
            *rng.pick(&["RESP", "R", "FREQUENCY", "MEASUREMENT"])
        } else {
            *rng.pick(&["SUB", "S", "CW", "X"])
        };
        hdr.push(format!("{}{}", stem, *uniq % 1000));
    }
    // now and then a query that answers nothing at all (or with a header only)
    let nd = if rng.chance(1, 16) { 0 } else { rng.urange(1, max_data.max(1)) };
    let data = (0..nd).map(|_| gen_datum(rng, uniq)).collect();
    (hdr, data)
}

// ------------------------------------------------------------------------------------------
// Well-formed application units

pub struct UnitOpts {
    pub max_params: usize,
    pub allow_indef_last: bool,
    pub query_pct: u64,
    pub max_data: usize,
    pub fancy_ws: bool,
}

impl Default for UnitOpts {
    fn default() -> Self {
        UnitOpts {
            max_params: 4,
            allow_indef_last: false,
            query_pct: 50,
            max_data: 3,
            fancy_ws: true,
        }
    }
}

/// A well-formed unit addressed to a SimHandler leaf whose plan consumes exactly its params
/// (raw token pulls) and, for queries, writes 1..max_data data.
pub fn gen_app_unit(
    rng: &mut Rng,
    tc: &TreeCtx,
    leaf: &LeafInfo,
    level: &[usize],
    first: bool,
    uniq: &mut u32,
    o: &UnitOpts,
) -> Unit {
    let (colon, path) = spell_header(rng, tc, leaf, level, first, 50);
    let query = rng.chance(o.query_pct, 100);
    let np = rng.usize_below(o.max_params + 1);
    let mut params = Vec::new();
    for j in 0..np {
        let last = j + 1 == np;
        params.push(gen_elem(rng, uniq, o.allow_indef_last && last));
    }
    // an indefinite block may only end the message; callers that set allow_indef_last make
    // this unit the last one and keep end == ""
    let mut psep = Vec::new();
    for _ in 1..np {
        psep.push(if o.fancy_ws { gen_psep(rng) } else { B::from(",") });
    }
    let has_indef = matches!(params.last(), Some(Elem::BlkIndef { .. }));
    let hsep = if np > 0 {
        if o.fancy_ws {
            gen_ws(rng, false)
        } else {
            B::from(" ")
        }
    } else if o.fancy_ws && rng.chance(1, 5) {
        gen_ws(rng, false)
    } else {
        B::new()
    };
    let tail = if np > 0 && !has_indef && o.fancy_ws && rng.chance(1, 4) {
        gen_ws(rng, false)
    } else {
        B::new()
    };
    let mut plan = Plan::default();
    for _ in 0..np {
        plan.pulls.push(Pull {
            req: rng.chance(2, 3),
            ty: PullTy::Tok,
        });
    }
    if query {
        let (hdr, data) = gen_response_plan(rng, uniq, o.max_data);
        plan.hdr = hdr;
        plan.data = data;
        // how the handler treats finish(): once at the end (usual), after every datum returning
        // at the first error, or after every datum carrying on regardless
        match rng.below(8) {
            0 => plan.finish_each = true,
            1 => {
                plan.finish_each = true;
                plan.finish_ignore = true;
            }
            _ => {}
        }
    }
    Unit {
        lead: B::new(),
        colon,
        path,
        query,
        hfault: None,
        hsep,
        params,
        psep,
        tail,
        pfault: None,
        plan,
    }
}

pub fn pick_sim_leaf<'a>(rng: &mut Rng, tc: &'a TreeCtx) -> Option<&'a LeafInfo> {
    if tc.sim_leaves.is_empty() {
        None
    } else {
        Some(&tc.leaves[*rng.pick(&tc.sim_leaves)])
    }
}

/// Unit addressed to a mandated command, fully controlled parameters.
pub fn contrib_unit(rng: &mut Rng, tc: &TreeCtx, c: Contrib, query: bool, params: Vec<Elem>, level: &[usize], first: bool) -> Unit {
    let leaf = tc.contrib_leaf(c).expect("mandated command in tree").clone();
    let (colon, path) = spell_header(rng, tc, &leaf, level, first, 50);
    let np = params.len();
    Unit {
        lead: B::new(),
        colon,
        path,
        query,
        hfault: None,
        hsep: if np > 0 { B::from(" ") } else { B::new() },
        psep: (1..np).map(|_| B::from(",")).collect(),
        params,
        tail: B::new(),
        pfault: None,
        plan: Plan::default(),
    }
}

// ------------------------------------------------------------------------------------------
// F4: headers that designate no node

pub fn gen_undefined_header(rng: &mut Rng, tc: &TreeCtx, level: &[usize], first: bool) -> Option<(bool, Vec<String>, &'static str)> {
    for _ in 0..12 {
        let leaf = if rng.chance(1, 8) || tc.sim_leaves.is_empty() {
            rng.pick(&tc.leaves).clone()
        } else {
            tc.leaves[*rng.pick(&tc.sim_leaves)].clone()
        };
        let (colon, mut path) = spell_header(rng, tc, &leaf, level, first, 30);
        let kind: &'static str;
        let k = rng.below(11);
        let idx = rng.usize_below(path.len());
        match k {
            10 => {
                // the name of a node repeated one level below it (A:A)
                if path[idx].starts_with('*') {
                    continue;
                }
                let again = path[idx].clone();
                path.insert(idx + 1, again);
                kind = "name_repeated_below_itself";
            }
            9 => {
                // the right letters with a huge / aliasing numeric suffix
                if path[idx].starts_with('*') {
                    continue;
                }
                let (alpha, suf) = split_suffix(&path[idx]);
                let cur: u64 = suf.and_then(|s| s.parse().ok()).unwrap_or(1);
                let new = match rng.below(4) {
                    0 => format!("{}{}", alpha, cur + 256),
                    1 => format!("{}{}", alpha, cur + 65536),
                    2 => format!("{}{}", alpha, 70000 + rng.below(9_000_000)),
                    _ => format!("{}{}", alpha, cur + 512),
                };
                if new.len() > 12 {
                    continue;
                }
                path[idx] = new;
                kind = "aliasing_or_huge_suffix";
            }
            7 | 8 => {
                // relative header that designates a node from some OTHER level (an ancestor of
                // the current level, or the root) but nothing from the current one
                if first || level.is_empty() {
                    continue;
                }
                let other_len = rng.usize_below(level.len());
                let other: Vec<usize> = level[..other_len].to_vec();
                if leaf.path.len() <= other.len() || leaf.path[..other.len()] != other[..] {
                    continue;
                }
                // spell the part of the chain below `other`
                let mut n = &tc.root;
                let mut chain: Vec<&MNode> = Vec::new();
                for i in &leaf.path {
                    n = &n.children()[*i];
                    chain.push(n);
                }
                let mut rel: Vec<String> = Vec::new();
                for n in chain[other.len()..].iter() {
                    if n.name.is_empty() || (n.default && rng.chance(1, 2)) {
                        continue;
                    }
                    rel.push(spell(rng, &n.name));
                }
                if rel.is_empty() || rel[0].starts_with('*') {
                    continue;
                }
                if !matches!(resolve(&tc.root, &other, false, false, &rel), Resolved::Leaf { .. }) {
                    continue;
                }
                if resolve(&tc.root, level, false, false, &rel) == Resolved::Undefined {
                    return Some((false, rel, "valid_only_from_another_level"));
                }
                continue;
            }
            0 => {
                // unknown mnemonic
                path[idx] = format!("QQ{}", (b'A' + rng.below(26) as u8) as char);
                kind = "unknown_mnemonic";
            }
            1 => {
                // near-miss abbreviation: short form + one more letter of the long form, or long
                // form minus its last letter
                let node_name = {
                    let mut n = &tc.root;
                    let mut names = Vec::new();
                    for i in &leaf.path {
                        n = &n.children()[*i];
                        names.push(n.name.clone());
                    }
                    names
                };
                let def = node_name
                    .iter()
                    .find(|d| mnemonic_matches(d, &path[idx]))
                    .cloned()
                    .unwrap_or_default();
                let (alpha, suf) = split_suffix(&def);
                let short = short_form(alpha);
                if alpha.len() >= short.len() + 2 {
                    let cut = if rng.chance(1, 2) { short.len() + 1 } else { alpha.len() - 1 };
                    path[idx] = format!("{}{}", &alpha[..cut], suf.unwrap_or(""));
                } else {
                    path[idx] = format!("{}X{}", alpha, suf.unwrap_or(""));
                }
                kind = "near_miss_abbreviation";
            }
            2 => {
                // wrong numeric suffix
                let (alpha, suf) = split_suffix(&path[idx]);
                let new = match suf {
                    Some(s) => format!("{}{}", alpha, s.parse::<u32>().unwrap_or(1) + 7),
                    None => format!("{}{}", alpha, rng.range(2, 9)),
                };
                if new.len() > 12 {
                    continue;
                }
                path[idx] = new;
                kind = "wrong_suffix";
            }
            3 => {
                // extra level below a leaf (a common command followed by ':' is a syntax fault, not
                // an undefined header)
                if path[0].starts_with('*') {
                    continue;
                }
                path.push(format!("EX{}", rng.below(10)));
                kind = "level_below_leaf";
            }
            4 => {
                // common command that does not exist
                path = vec![format!("*Q{}{}", (b'A' + rng.below(26) as u8) as char, (b'A' + rng.below(26) as u8) as char)];
                kind = "unknown_common";
                if resolve(&tc.root, level, first, false, &path) == Resolved::Undefined {
                    return Some((false, path, kind));
                }
                continue;
            }
            5 => {
                // extension of the long form
                let (alpha, suf) = split_suffix(&path[idx]);
                let new = format!("{}Z{}", alpha, suf.unwrap_or(""));
                if new.len() > 12 {
                    continue;
                }
                path[idx] = new;
                kind = "extended_long_form";
            }
            _ => {
                // header stopping on a branch without default
                if path.len() < 2 {
                    continue;
                }
                path.pop();
                kind = "stops_on_branch";
            }
        }
        if path.iter().any(|p| p.len() > 12) {
            continue;
        }
        if resolve(&tc.root, level, first, colon, &path) == Resolved::Undefined {
            return Some((colon, path, kind));
        }
    }
    None
}

// ------------------------------------------------------------------------------------------
// F3: IEEE 488.2 syntax-fault catalogue

pub const HEADER_FAULTS: &[&str] = &[
    "mnemonic_13_chars",
    "double_colon",
    "colon_after_common",
    "comma_in_header",
    "digit_initial_mnemonic",
    "non_ascii_in_header",
    "data_after_query_mark",
    "string_in_header",
    "hash_in_header",
    "illegal_char_in_header",
    "colon_before_common",
    "trailing_colon",
    "mnemonic_too_long",
    "expression_glued_to_header",
];

/// Turn the (well-formed) header of `u` into a catalogued ill-formed one.
pub fn apply_header_fault(rng: &mut Rng, u: &mut Unit, kind: &str) -> bool {
    let mut hdr: Vec<u8> = Vec::new();
    {
        let mut tmp = Unit {
            lead: B::new(),
            hsep: B::new(),
            params: vec![],
            psep: vec![],
            tail: B::new(),
            ..u.clone()
        };
        tmp.hfault = None;
        tmp.query = false;
        render_unit(&tmp, &mut hdr);
    }
    let q = if u.query { "?" } else { "" };
    let common = u.path.first().map(|p| p.starts_with('*')).unwrap_or(false);
    let raw: Vec<u8> = match kind {
        "mnemonic_13_chars" => {
            if common {
                let mut v = b"*ABCDEFGHIJKLM".to_vec();
                v.extend_from_slice(q.as_bytes());
                v
            } else {
                let mut v = hdr.clone();
                v.extend_from_slice(b":ABCDEFGHIJKLM");
                if rng.chance(1, 2) {
                    v = b"ABCDEFGHIJKLM".to_vec();
                }
                v.extend_from_slice(q.as_bytes());
                v
            }
        }
        "mnemonic_too_long" => {
            let n = *rng.pick(LONG_LENGTHS);
            let long: Vec<u8> = (0..n).map(|k| b"MNEMONICXY"[k % 10]).collect();
            let mut v = Vec::new();
            if common {
                v.push(b'*');
                v.extend_from_slice(&long);
            } else {
                if u.colon {
                    v.push(b':');
                }
                let at = rng.usize_below(u.path.len());
                for (k, m) in u.path.iter().enumerate() {
                    if k > 0 {
                        v.push(b':');
                    }
                    if k == at {
                        v.extend_from_slice(&long);
                    } else {
                        v.extend_from_slice(m.as_bytes());
                    }
                }
            }
            v.extend_from_slice(q.as_bytes());
            v
        }
        "double_colon" => {
            if common {
                return false;
            }
            let mut v = Vec::new();
            if u.path.len() >= 2 {
                v.extend_from_slice(u.path[0].as_bytes());
                v.extend_from_slice(b"::");
                v.extend_from_slice(u.path[1..].join(":").as_bytes());
            } else {
                v.extend_from_slice(b"::");
                v.extend_from_slice(u.path[0].as_bytes());
            }
            v.extend_from_slice(q.as_bytes());
            v
        }
        "colon_after_common" => {
            if !common {
                return false;
            }
            let mut v = hdr.clone();
            v.extend_from_slice(b":ABC");
            v.extend_from_slice(q.as_bytes());
            v
        }
        "colon_before_common" => {
            if !common {
                return false;
            }
            let mut v = b":".to_vec();
            v.extend_from_slice(&hdr);
            v.extend_from_slice(q.as_bytes());
            v
        }
        "comma_in_header" => {
            let mut v = hdr.clone();
            v.extend_from_slice(b",ABC");
            v.extend_from_slice(q.as_bytes());
            v
        }
        "digit_initial_mnemonic" => {
            if common {
                return false;
            }
            let mut v = Vec::new();
            if u.colon {
                v.push(b':');
            }
            if u.path.len() >= 2 && rng.chance(1, 2) {
                v.extend_from_slice(u.path[0].as_bytes());
                v.extend_from_slice(b":1");
                v.extend_from_slice(u.path[1..].join(":").as_bytes());
            } else {
                v.push(b'1');
                v.extend_from_slice(u.path.join(":").as_bytes());
            }
            v.extend_from_slice(q.as_bytes());
            v
        }
        "non_ascii_in_header" => {
            let mut v = hdr.clone();
            let pos = rng.urange(if v.first() == Some(&b':') || v.first() == Some(&b'*') { 1 } else { 0 }, v.len());
            v.insert(pos, *rng.pick(&[0x80u8, 0xC3, 0xFF]));
            v.extend_from_slice(q.as_bytes());
            v
        }
        "data_after_query_mark" => {
            let mut v = hdr.clone();
            v.extend_from_slice(b"?");
            v.extend_from_slice(pickb(rng, &[&b"1"[..], &b"ABC"[..], &b"\"x\""[..], &b"#H1"[..], &b"?"[..], &b":A"[..], &b","[..]]));
            v
        }
        "string_in_header" => {
            let mut v = hdr.clone();
            v.extend_from_slice(b"\"x\"");
            v.extend_from_slice(q.as_bytes());
            v
        }
        "expression_glued_to_header" => {
            // no header separator: the parenthesis follows the last mnemonic (or the `?`) directly
            let mut v = hdr.clone();
            v.extend_from_slice(q.as_bytes());
            v.extend_from_slice(pickb(rng, &[&b"(1)"[..], &b"(@1,2)"[..], &b"(1,2:3)"[..], &b"()"[..], &b"(@1),5"[..]]));
            v
        }
        "hash_in_header" => {
            let mut v = hdr.clone();
            v.extend_from_slice(pickb(rng, &[&b"#H1"[..], &b"#HFFFFFFFFFFFFFFFFFF"[..], &b"#B1"[..], &b"#15abcde"[..], &b"#Q7777777777777777777777777"[..]]));
            v
        }
        "illegal_char_in_header" => {
            let mut v = hdr.clone();
            let pos = rng.urange(1, v.len());
            v.insert(pos, *rng.pick(&[b'&', b'!', b'$', b'%', b'=', b'[', b'~', b'\\', b'@', b'.', b'+', b'-', b'/', 0x00, 0x1b]));
            v.extend_from_slice(q.as_bytes());
            v
        }
        "trailing_colon" => {
            if common {
                return false;
            }
            let mut v = hdr.clone();
            v.push(b':');
            v.extend_from_slice(q.as_bytes());
            v
        }
        _ => return false,
    };
    u.hfault = Some((kind.to_string(), B(raw)));
    true
}

pub const PARAM_FAULTS: &[&str] = &[
    "char_13_chars",
    "suffix_13_chars",
    "unterminated_string",
    "block_short",
    "block_bad_length",
    "block_hash_at_end",
    "indef_block_no_nl",
    "non_ascii_in_string",
    "non_ascii_in_expression",
    "non_ascii_after_chardata",
    "colon_in_params",
    "doubled_comma",
    "trailing_comma",
    "leading_comma",
    "missing_separator",
    "unbalanced_paren",
    "illegal_char_in_expression",
    "nondecimal_bad_digit",
    "nondecimal_no_digits",
    "number_no_digits",
    "exponent_no_digits",
    "bad_radix_letter",
    "illegal_char_as_data",
    "query_mark_in_params",
    "signed_block_length",
    "char_too_long",
    "suffix_too_long",
];

/// parameter faults that are errors of one element (the tokenizer keeps reporting them at that
/// element), as opposed to separator-level faults
pub const ELEMENT_FAULTS: &[&str] = &[
    "char_13_chars",
    "suffix_13_chars",
    "block_bad_length",
    "signed_block_length",
    "non_ascii_in_string",
    "non_ascii_in_expression",
    "illegal_char_in_expression",
    "nondecimal_bad_digit",
    "nondecimal_no_digits",
    "number_no_digits",
    "exponent_no_digits",
    "bad_radix_letter",
    "illegal_char_as_data",
    "query_mark_in_params",
    "char_too_long",
    "suffix_too_long",
];

/// lengths for over-long tokens: just over the limit, and around the wrap-around points of 8 bit
/// length counters
pub const LONG_LENGTHS: &[usize] = &[13, 14, 15, 100, 255, 256, 257, 260, 268, 269, 300, 511, 512, 520, 1000];

/// Put a catalogued lexical fault into the parameter part of `u` (which must be well-formed).
/// `last_in_msg`: the unit is the last one of the message and the message ends right after it
/// (needed for faults that swallow the rest of the input).
pub fn apply_param_fault(rng: &mut Rng, u: &mut Unit, kind: &str, last_in_msg: bool, uniq: &mut u32) -> bool {
    // make sure there is room for header separator
    if u.hsep.is_empty() {
        u.hsep = B::from(" ");
    }
    if matches!(u.params.last(), Some(Elem::BlkIndef { .. })) {
        return false;
    }
    let n = u.params.len();
    // position of the faulty element among the params (insert a new raw element at j)
    let j = rng.usize_below(n + 1);
    let mut insert_raw = |u: &mut Unit, j: usize, raw: Vec<u8>| {
        u.params.insert(j, Elem::Raw(B(raw)));
        if u.params.len() > 1 {
            let at = if j == 0 { 0 } else { j - 1 };
            u.psep.insert(at.min(u.psep.len()), B::from(","));
        }
    };
    let swallow = |last: bool| last; // faults that need to be last thing of the message
    let p: usize;
    match kind {
        "char_13_chars" => {
            insert_raw(u, j, b"ABCDEFGHIJKLM".to_vec());
            p = j;
        }
        "suffix_13_chars" => {
            insert_raw(u, j, b"1.5 ABCDEFGHIJKLM".to_vec());
            p = j;
        }
        "char_too_long" => {
            let n = *rng.pick(LONG_LENGTHS);
            insert_raw(u, j, (0..n).map(|k| b"ABCDEFGHIJ"[k % 10]).collect());
            p = j;
        }
        "suffix_too_long" => {
            let n = *rng.pick(LONG_LENGTHS);
            let mut v = if rng.chance(1, 2) { b"1.5 ".to_vec() } else { b"2".to_vec() };
            v.extend((0..n).map(|k| b"VOLTSAMPHZ"[k % 10]));
            insert_raw(u, j, v);
            p = j;
        }
        "unterminated_string" => {
            // swallows the rest of the message: everything after it is string content
            *uniq += 1;
            let q = *rng.pick(&[b'"', b'\'']);
            let mut raw = vec![q];
            raw.extend_from_slice(format!("open{}", uniq).as_bytes());
            insert_raw(u, j, raw);
            // make sure no matching quote follows inside this unit (later units/params could
            // contain one): only use as the last param of the last unit
            if !(swallow(last_in_msg) && j == n) {
                // drop following params to keep "nothing closes it"
                u.params.truncate(j + 1);
                u.psep.truncate(j);
                if !last_in_msg {
                    return false;
                }
            }
            u.tail = B::new();
            p = j;
        }
        "block_short" => {
            if !last_in_msg {
                return false;
            }
            u.params.truncate(j);
            u.psep.truncate(j.saturating_sub(1));
            insert_raw(u, j, b"#15ab".to_vec());
            u.tail = B::new();
            p = j;
        }
        "block_bad_length" => {
            let raw = pickb(rng, &[&b"#2x5abcde"[..], &b"#1Zabc"[..], &b"#3 12abc"[..], &b"#2-1abc"[..]]).to_vec();
            insert_raw(u, j, raw);
            p = j;
        }
        "signed_block_length" => {
            insert_raw(u, j, b"#2+5abcde".to_vec());
            p = j;
        }
        "block_hash_at_end" => {
            if !last_in_msg {
                return false;
            }
            u.params.truncate(j);
            u.psep.truncate(j.saturating_sub(1));
            insert_raw(u, j, b"#".to_vec());
            u.tail = B::new();
            p = j;
        }
        "indef_block_no_nl" => {
            if !last_in_msg {
                return false;
            }
            u.params.truncate(j);
            u.psep.truncate(j.saturating_sub(1));
            insert_raw(u, j, b"#0abc".to_vec());
            u.tail = B::new();
            p = j;
        }
        "non_ascii_in_string" => {
            // either quote character, the offending byte anywhere in a string of 1..40 bytes,
            // in front of or behind a doubled quote
            let q = *rng.pick(&[b'"', b'\'']);
            let hi = *rng.pick(&[0x80u8, 0xE9, 0xFF]);
            let mut body: Vec<Vec<u8>> = Vec::new();
            let n = *rng.pick(&[1usize, 2, 3, 8, 40]);
            for k in 0..n {
                body.push(if rng.chance(1, 4) { vec![q, q] } else { vec![b'a' + (k % 26) as u8] });
            }
            let pos = rng.usize_below(n);
            body[pos] = vec![hi];
            if pos > 0 && rng.chance(1, 2) {
                body[pos - 1] = vec![q, q];
            }
            let mut raw = vec![q];
            raw.extend(body.into_iter().flatten());
            raw.push(q);
            insert_raw(u, j, raw);
            p = j;
        }
        "non_ascii_in_expression" => {
            insert_raw(u, j, vec![b'(', b'1', *rng.pick(&[0x80u8, 0xE9, 0xFF]), b')']);
            p = j;
        }
        "non_ascii_after_chardata" => {
            insert_raw(u, j, vec![b'A', b'B', *rng.pick(&[0x80u8, 0xE9, 0xFF])]);
            p = j;
        }
        "colon_in_params" => {
            let raw = pickb(rng, &[&b"1:2"[..], &b"A:B"[..], &b":A"[..], &b"\"s\":1"[..]]).to_vec();
            insert_raw(u, j, raw);
            p = j;
        }
        "doubled_comma" => {
            if n < 2 {
                return false;
            }
            let k = rng.usize_below(n - 1);
            u.psep[k] = B::from(*rng.pick(&[",,", ", ,", " ,, "]));
            p = k + 1;
        }
        "trailing_comma" => {
            if n < 1 {
                return false;
            }
            u.tail = B::from(*rng.pick(&[",", " ,", ", "]));
            p = n;
        }
        "leading_comma" => {
            if n < 1 {
                return false;
            }
            let mut h = u.hsep.0.clone();
            h.push(b',');
            u.hsep = B(h);
            p = 0;
        }
        "missing_separator" => {
            if n < 1 {
                return false;
            }
            // element k followed by white space and another datum that cannot be a suffix
            let k = rng.usize_below(n);
            let follow: &[u8] = match &u.params[k] {
                Elem::Dec(_) => pickb(rng, &[&b" 2"[..], &b" \"x\""[..], &b" (1)"[..], &b" #H1"[..]]),
                _ => pickb(rng, &[&b" 2"[..], &b" \"x\""[..], &b" (1)"[..], &b" #H1"[..], &b" ABC"[..]]),
            };
            let mut raw = Vec::new();
            render_elem(&u.params[k], &mut raw);
            raw.extend_from_slice(follow);
            u.params[k] = Elem::Raw(B(raw));
            p = k;
        }
        "unbalanced_paren" => {
            if !last_in_msg {
                return false;
            }
            u.params.truncate(j);
            u.psep.truncate(j.saturating_sub(1));
            insert_raw(u, j, b"(1,2".to_vec());
            u.tail = B::new();
            p = j;
        }
        "illegal_char_in_expression" => {
            let raw = pickb(rng, &[&b"(1;2)"[..], &b"(a\"b)"[..], &b"(a'b)"[..], &b"((1))"[..]]).to_vec();
            insert_raw(u, j, raw);
            p = j;
        }
        "nondecimal_bad_digit" => {
            let raw = pickb(rng, &[&b"#B102"[..], &b"#Q78"[..], &b"#HFG"[..], &b"#H1.5"[..]]).to_vec();
            insert_raw(u, j, raw);
            p = j;
        }
        "nondecimal_no_digits" => {
            let raw = pickb(rng, &[&b"#H"[..], &b"#Q"[..], &b"#B"[..]]).to_vec();
            insert_raw(u, j, raw);
            p = j;
        }
        "number_no_digits" => {
            let raw = pickb(rng, &[&b"+"[..], &b"-"[..], &b"."[..], &b"+."[..], &b"-.E5"[..]]).to_vec();
            insert_raw(u, j, raw);
            p = j;
        }
        "exponent_no_digits" => {
            let raw = pickb(rng, &[&b"1E"[..], &b"1.5E+"[..], &b"2e-"[..]]).to_vec();
            insert_raw(u, j, raw);
            p = j;
        }
        "bad_radix_letter" => {
            let raw = pickb(rng, &[&b"#X12"[..], &b"#D12"[..], &b"#_1"[..]]).to_vec();
            insert_raw(u, j, raw);
            p = j;
        }
        "illegal_char_as_data" => {
            let raw = vec![*rng.pick(&[b'&', b'$', b'%', b'=', b'[', b'~', b'\\', b'@', b'!', b')', b'_', b'/', 0x00, 0x1b])];
            insert_raw(u, j, raw);
            p = j;
        }
        "query_mark_in_params" => {
            insert_raw(u, j, b"?".to_vec());
            p = j;
        }
        _ => return false,
    }
    u.pfault = Some(PFault {
        kind: kind.to_string(),
        p,
    });
    true
}

// ------------------------------------------------------------------------------------------
// F7: transport corruption

pub fn gen_corruption(rng: &mut Rng, bytes: &[u8], n: usize, other: Option<&[u8]>) -> Vec<Corrupt> {
    let mut v = Vec::new();
    let len = bytes.len().max(1);
    // positions biased to delimiters: quotes, '#', digits after '#', 'E', ';', ',' , ':' , '(' ')'
    let interesting: Vec<usize> = bytes
        .iter()
        .enumerate()
        .filter(|(_, b)| matches!(**b, b'"' | b'\'' | b'#' | b';' | b',' | b':' | b'(' | b')' | b'E' | b'e' | b'?' | b'*' | b'!' | b'@' | b'\n'))
        .map(|(i, _)| i)
        .collect();
    let pos = |rng: &mut Rng| -> usize {
        if !interesting.is_empty() && rng.chance(1, 2) {
            let p = *rng.pick(&interesting);
            (p as i64 + rng.range(-1, 2)).clamp(0, len as i64 - 1) as usize
        } else {
            rng.usize_below(len)
        }
    };
    const BYTES: &[u8] = &[
        b'"', b'\'', b'#', b';', b',', b':', b'(', b')', b'?', b'*', b' ', b'\n', b'0', b'9', b'A', b'z', b'_', b'+', b'-', b'.', b'E', b'!', b'@',
        0x00, 0x80, 0xFF, b'/', b'&', b'\t', b'\r',
    ];
    for _ in 0..n {
        let c = match rng.below(10) {
            0 | 1 => Corrupt::Truncate { at: pos(rng) },
            2 | 3 => Corrupt::Flip {
                pos: pos(rng),
                bit: rng.below(8) as u8,
            },
            4 => Corrupt::Delete { pos: pos(rng) },
            5 | 6 => Corrupt::Insert {
                pos: pos(rng),
                byte: *rng.pick(BYTES),
            },
            7 | 8 => Corrupt::Replace {
                pos: pos(rng),
                byte: *rng.pick(BYTES),
            },
            _ => match other {
                Some(o) => Corrupt::Splice { tail: B(o.to_vec()) },
                None => Corrupt::Truncate { at: pos(rng) },
            },
        };
        v.push(c);
    }
    v
}

pub fn gen_garbage(rng: &mut Rng, max_len: usize) -> Vec<u8> {
    const CLASSES: &[u8] = &[
        b'A', b'z', b'0', b'9', b'_', b'*', b':', b'?', b';', b',', b' ', b'\t', b'\n', b'\r', b'"', b'\'', b'#', b'(', b')', b'+', b'-', b'.', b'E',
        b'H', b'Q', b'B', b'!', b'@', b'/', b'&', 0x00, 0x7f, 0x80, 0xFF,
    ];
    let n = rng.usize_below(max_len + 1);
    (0..n).map(|_| *rng.pick(CLASSES)).collect()
}

// ------------------------------------------------------------------------------------------
// Injected error codes

pub const CLASS_REPRESENTATIVES: &[i16] = &[
    -100, -101, -102, -104, -108, -109, -113, -120, -150, -199, -200, -221, -222, -224, -225, -240, -299, -300, -310, -350, -363, -399, -400,
    -410, -440, -499, -500, -600, -700, -800, 1, 2, 100, 32767, -900, -1000, i16::MIN, -99, -1, 0, 0,
];

pub fn gen_err_spec(rng: &mut Rng) -> ErrSpec {
    let code = if rng.chance(3, 4) {
        *rng.pick(CLASS_REPRESENTATIVES)
    } else {
        rng.range(i16::MIN as i64, i16::MAX as i64) as i16
    };
    let msg = rng.below(8) as u8;
    ErrSpec {
        code,
        // description 6 contains a string delimiter: only used without extended text
        ext: if msg != 6 && rng.chance(1, 3) { Some(rng.below(16) as u8) } else { None },
        msg,
    }
}
