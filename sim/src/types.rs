//! Trace / replay-file data model. Everything a simulated run does is described by these
//! plain-data types; execution consumes only a `Trace`, never the PRNG.

use serde::{Deserialize, Deserializer, Serialize, Serializer};

/// Byte string serialised as a JSON string by the Latin-1 bijection (byte b <-> U+00bb).
#[derive(Clone, PartialEq, Eq, PartialOrd, Ord, Hash, Default)]
pub struct B(pub Vec<u8>);

impl B {
    pub fn new() -> Self {
        B(Vec::new())
    }
    pub fn from_str(s: &str) -> Self {
        B(s.as_bytes().to_vec())
    }
    pub fn as_slice(&self) -> &[u8] {
        &self.0
    }
    pub fn len(&self) -> usize {
        self.0.len()
    }
    pub fn is_empty(&self) -> bool {
        self.0.is_empty()
    }
}

impl From<&[u8]> for B {
    fn from(s: &[u8]) -> Self {
        B(s.to_vec())
    }
}
impl From<Vec<u8>> for B {
    fn from(s: Vec<u8>) -> Self {
        B(s)
    }
}
impl From<&str> for B {
    fn from(s: &str) -> Self {
        B(s.as_bytes().to_vec())
    }
}

pub fn show(bytes: &[u8]) -> String {
    let mut s = String::new();
    for b in bytes {
        match *b {
            b'\n' => s.push_str("\\n"),
            b'\r' => s.push_str("\\r"),
            b'\t' => s.push_str("\\t"),
            b'\\' => s.push_str("\\\\"),
            0x20..=0x7e => s.push(*b as char),
            _ => s.push_str(&format!("\\x{:02x}", b)),
        }
    }
    s
}

impl core::fmt::Debug for B {
    fn fmt(&self, f: &mut core::fmt::Formatter<'_>) -> core::fmt::Result {
        write!(f, "b\"{}\"", show(&self.0))
    }
}

impl Serialize for B {
    fn serialize<S: Serializer>(&self, s: S) -> Result<S::Ok, S::Error> {
        let st: String = self.0.iter().map(|b| *b as char).collect();
        s.serialize_str(&st)
    }
}

impl<'de> Deserialize<'de> for B {
    fn deserialize<D: Deserializer<'de>>(d: D) -> Result<Self, D::Error> {
        let st = String::deserialize(d)?;
        let mut v = Vec::with_capacity(st.len());
        for c in st.chars() {
            let u = c as u32;
            if u > 0xff {
                return Err(serde::de::Error::custom("non latin-1 char in byte string"));
            }
            v.push(u as u8);
        }
        Ok(B(v))
    }
}

// ------------------------------------------------------------------------------------------
// Errors

/// An error the harness injects (handler failure, formatter failure, self-test result).
#[derive(Clone, Copy, Debug, PartialEq, Eq, Serialize, Deserialize)]
pub struct ErrSpec {
    pub code: i16,
    /// index into the static table of extended texts, if any
    #[serde(default, skip_serializing_if = "Option::is_none")]
    pub ext: Option<u8>,
    /// index into the static table of custom messages (used when `code` is not a standard code)
    #[serde(default)]
    pub msg: u8,
}

/// An error as observed coming out of the library (owned copy of what its accessors report).
#[derive(Clone, PartialEq, Eq, Serialize, Deserialize, Hash)]
pub struct ErrObs {
    pub code: i16,
    pub msg: B,
    #[serde(default, skip_serializing_if = "Option::is_none")]
    pub ext: Option<B>,
}

impl ErrObs {
    /// `self` (what the library reported) is the failure `raised` (what a formatter, handler or
    /// queue returned): same code and description; the library may have added extended
    /// information where there was none, but never changed or removed any.
    pub fn reports(&self, raised: &ErrObs) -> bool {
        self.code == raised.code && self.msg == raised.msg && (self.ext == raised.ext || raised.ext.is_none())
    }
}

impl core::fmt::Debug for ErrObs {
    fn fmt(&self, f: &mut core::fmt::Formatter<'_>) -> core::fmt::Result {
        match &self.ext {
            Some(e) => write!(f, "{},\"{};{}\"", self.code, show(&self.msg.0), show(&e.0)),
            None => write!(f, "{},\"{}\"", self.code, show(&self.msg.0)),
        }
    }
}

// ------------------------------------------------------------------------------------------
// Tokens as seen by handlers

#[derive(Clone, PartialEq, Eq, Debug, Serialize, Deserialize, Hash)]
pub enum Tok {
    Chr(B),
    Dec(B),
    DecSuf(B, B),
    NonDec(u64),
    Str(B),
    Blk(B),
    Expr(B),
    /// a non-data token handed to a handler (must never happen)
    Other(String),
}

/// Result of one pull, as logged by a SimHandler
#[derive(Clone, PartialEq, Eq, Debug, Serialize, Deserialize)]
pub enum PullObs {
    /// raw token pull returned this token
    Tok(Tok),
    /// optional pull returned None
    Absent,
    /// pull (raw or typed) returned this error
    Err(ErrObs),
    /// typed pull succeeded (value not recorded)
    Value(String),
}

// ------------------------------------------------------------------------------------------
// Command tree description

#[derive(Clone, Copy, Debug, PartialEq, Eq, Serialize, Deserialize, Hash, PartialOrd, Ord)]
pub enum Reg {
    Oper,
    Ques,
}

#[derive(Clone, Copy, Debug, PartialEq, Eq, Serialize, Deserialize, Hash, PartialOrd, Ord)]
pub enum RegCmd {
    Event,
    Condition,
    Enable,
    Ntr,
    Ptr,
}

/// The mandated commands (real scpi-contrib handlers behind them)
#[derive(Clone, Copy, Debug, PartialEq, Eq, Serialize, Deserialize, Hash, PartialOrd, Ord)]
pub enum Contrib {
    Cls,
    Ese,
    Esr,
    Idn,
    Opc,
    Rst,
    Sre,
    Stb,
    Tst,
    Wai,
    StatReg(Reg, RegCmd),
    StatPreset,
    SystErrNext,
    SystErrAll,
    SystErrCount,
    SystVersion,
}

#[derive(Clone, Debug, PartialEq, Eq, Serialize, Deserialize)]
pub enum TNode {
    Leaf {
        name: String,
        default: bool,
        h: usize,
    },
    Branch {
        name: String,
        default: bool,
        sub: Vec<TNode>,
    },
}

impl TNode {
    pub fn name(&self) -> &str {
        match self {
            TNode::Leaf { name, .. } => name,
            TNode::Branch { name, .. } => name,
        }
    }
    pub fn is_default(&self) -> bool {
        match self {
            TNode::Leaf { default, .. } => *default,
            TNode::Branch { default, .. } => *default,
        }
    }
}

#[derive(Clone, Debug, PartialEq, Eq, Serialize, Deserialize, Default)]
pub struct TreeDesc {
    /// include the real IEEE 488.2 / SCPI-99 mandated commands (built with the contrib macros)
    pub mandated: bool,
    /// application sub-tree (children of the root) served by SimHandlers
    pub app: Vec<TNode>,
    /// a fixed tree built at compile time with the crate's `Root!` / `Branch!` / `Leaf!` macros
    /// (`app` is ignored); currently only "macro"
    #[serde(default, skip_serializing_if = "Option::is_none")]
    pub fixed: Option<String>,
}

// ------------------------------------------------------------------------------------------
// Messages

#[derive(Clone, Debug, PartialEq, Eq, Serialize, Deserialize)]
pub enum Elem {
    /// <CHARACTER PROGRAM DATA>
    Chr(String),
    /// <DECIMAL NUMERIC PROGRAM DATA> literal text
    Dec(String),
    /// decimal + optional white space + suffix
    DecSuf { num: String, ws: B, suf: String },
    /// #H / #Q / #B literal: radix letter as spelled, digits as spelled
    NonDec { radix: char, digits: String },
    /// quoted string; `inner` = raw bytes between the outer quotes (quotes already doubled)
    Str { q: char, inner: B },
    /// definite length block; `pad` = number of extra leading zeros in the length field
    Blk { payload: B, pad: u8 },
    /// indefinite block #0...NL (only as the very last thing of a message)
    BlkIndef { payload: B },
    /// (expression)
    Expr(B),
    /// literal bytes of an ill-formed element (only in units carrying a `pfault`)
    Raw(B),
}

#[derive(Clone, Copy, Debug, PartialEq, Eq, Serialize, Deserialize, Hash)]
pub enum PullTy {
    Tok,
    U8,
    I8,
    U16,
    I16,
    U32,
    I32,
    U64,
    I64,
    Usize,
    Isize,
    F32,
    F64,
    Bool,
    Bytes,
    Str,
    Arb,
    Chr,
    Expr,
    NumList,
    ChanList,
    Volt,
    Time,
    AmpVolt,
    DbRatio,
    NumValF32,
    NumValU8,
    Enum,
    Auto,
}

pub const ALL_PULL_TYPES: &[PullTy] = &[
    PullTy::Tok,
    PullTy::U8,
    PullTy::I8,
    PullTy::U16,
    PullTy::I16,
    PullTy::U32,
    PullTy::I32,
    PullTy::U64,
    PullTy::I64,
    PullTy::Usize,
    PullTy::Isize,
    PullTy::F32,
    PullTy::F64,
    PullTy::Bool,
    PullTy::Bytes,
    PullTy::Str,
    PullTy::Arb,
    PullTy::Chr,
    PullTy::Expr,
    PullTy::NumList,
    PullTy::ChanList,
    PullTy::Volt,
    PullTy::Time,
    PullTy::AmpVolt,
    PullTy::DbRatio,
    PullTy::NumValF32,
    PullTy::NumValU8,
    PullTy::Enum,
    PullTy::Auto,
];

#[derive(Clone, Copy, Debug, PartialEq, Eq, Serialize, Deserialize)]
pub struct Pull {
    pub req: bool,
    pub ty: PullTy,
}

#[derive(Clone, Copy, Debug, PartialEq, Eq, Serialize, Deserialize)]
pub enum Phase {
    Before,
    AfterPull(usize),
    AfterPulls,
    AfterDatum(usize),
}

#[derive(Clone, Copy, Debug, PartialEq, Eq, Serialize, Deserialize)]
pub struct PlanFail {
    pub err: ErrSpec,
    pub phase: Phase,
}

/// One response datum a query handler writes
#[derive(Clone, Debug, PartialEq, Serialize, Deserialize)]
pub enum Datum {
    I64(i64),
    U64(u64),
    I16(i16),
    U8(u8),
    F64(u64), // bits
    F32(u32), // bits
    Bool(bool),
    Str(B),  // ASCII
    Arb(B),
    Chr(String),
    Expr(B),
    Hex(u32),
    Oct(u16),
    Bin(u8),
    /// non-decimal forms of signed types (extremes included)
    BinI8(i8),
    HexI16(i16),
    OctI64(i64),
    Utf8(String),
    /// an error value written as response data (`code,"message[;extended]"`)
    Err(ErrSpec),
    /// arrayvec::ArrayVec<i32, 8> list
    ArrList(Vec<i32>),
    /// Vec<u16> list
    VecList(Vec<u16>),
    /// Vec<Character> list (items may be empty)
    ChrList(Vec<String>),
}

#[derive(Clone, Copy, Debug, PartialEq, Eq, Serialize, Deserialize, Default)]
pub enum HwKind {
    /// EventRegister::set_condition(value)
    #[default]
    Set,
    /// EventRegister::set_condition_bits(value)
    SetBits,
    /// EventRegister::clear_condition_bits(value)
    ClearBits,
    /// the device firmware writes the public `enable` field itself (power-on default, service
    /// mode): not a condition change, but it decides which conditions are summarised
    Enable,
}

fn hw_is_set(k: &HwKind) -> bool {
    *k == HwKind::Set
}

#[derive(Clone, Copy, Debug, PartialEq, Eq, Serialize, Deserialize)]
pub struct HwOp {
    pub reg: Reg,
    pub value: u16,
    #[serde(default, skip_serializing_if = "hw_is_set")]
    pub op: HwKind,
}

impl HwOp {
    /// the condition register value this operation asks for, given the current one
    pub fn target(&self, current: u16) -> u16 {
        match self.op {
            HwKind::Set => self.value,
            HwKind::SetBits => current | self.value,
            HwKind::ClearBits => current & !self.value,
            HwKind::Enable => current,
        }
    }
}

#[derive(Clone, Debug, PartialEq, Serialize, Deserialize, Default)]
pub struct Plan {
    #[serde(default, skip_serializing_if = "Vec::is_empty")]
    pub pulls: Vec<Pull>,
    #[serde(default, skip_serializing_if = "Option::is_none")]
    pub fail: Option<PlanFail>,
    #[serde(default, skip_serializing_if = "Vec::is_empty")]
    pub hdr: Vec<String>,
    #[serde(default, skip_serializing_if = "Vec::is_empty")]
    pub data: Vec<Datum>,
    #[serde(default, skip_serializing_if = "Option::is_none")]
    pub hw: Option<HwOp>,
    /// the handler tolerates failing pulls (logs the error and carries on) instead of returning it
    #[serde(default, skip_serializing_if = "is_false")]
    pub swallow: bool,
    /// the handler calls ResponseUnit::finish() after every datum (and returns its error, if any)
    #[serde(default, skip_serializing_if = "is_false")]
    pub finish_each: bool,
    /// with finish_each: the handler looks at the result of those intermediate finish() calls
    /// but carries on regardless; only the last finish() is returned
    #[serde(default, skip_serializing_if = "is_false")]
    pub finish_ignore: bool,
}

/// Lexical fault in the parameter part of a unit: elements with index < p can be delivered
/// intact; lexing breaks at p (pulling element p, or the left-over check, must yield a
/// command error).
#[derive(Clone, Debug, PartialEq, Eq, Serialize, Deserialize)]
pub struct PFault {
    pub kind: String,
    pub p: usize,
}

#[derive(Clone, Debug, PartialEq, Serialize, Deserialize, Default)]
pub struct Unit {
    /// white space after the preceding `;` (empty for the first unit)
    #[serde(default, skip_serializing_if = "B::is_empty")]
    pub lead: B,
    #[serde(default)]
    pub colon: bool,
    pub path: Vec<String>,
    #[serde(default)]
    pub query: bool,
    /// catalogued ill-formed header: literal header bytes replacing colon/path/query
    #[serde(default, skip_serializing_if = "Option::is_none")]
    pub hfault: Option<(String, B)>,
    #[serde(default, skip_serializing_if = "B::is_empty")]
    pub hsep: B,
    #[serde(default, skip_serializing_if = "Vec::is_empty")]
    pub params: Vec<Elem>,
    #[serde(default, skip_serializing_if = "Vec::is_empty")]
    pub psep: Vec<B>,
    #[serde(default, skip_serializing_if = "B::is_empty")]
    pub tail: B,
    #[serde(default, skip_serializing_if = "Option::is_none")]
    pub pfault: Option<PFault>,
    #[serde(default)]
    pub plan: Plan,
}

#[derive(Clone, Debug, PartialEq, Serialize, Deserialize, Default)]
pub struct Msg {
    pub units: Vec<Unit>,
    /// what follows the last unit: "", "\n", " ", " \n", ";", ";\n", ...
    #[serde(default, skip_serializing_if = "B::is_empty")]
    pub end: B,
}

// ------------------------------------------------------------------------------------------
// Transport corruption (applied to the rendered bytes)

#[derive(Clone, Debug, PartialEq, Eq, Serialize, Deserialize)]
pub enum Corrupt {
    Truncate { at: usize },
    Flip { pos: usize, bit: u8 },
    Delete { pos: usize },
    Insert { pos: usize, byte: u8 },
    Replace { pos: usize, byte: u8 },
    /// terminator lost: the rendered bytes of another message are appended
    Splice { tail: B },
    /// the whole message replaced by these bytes
    Garbage { bytes: B },
}

#[derive(Clone, Debug, PartialEq, Eq, Serialize, Deserialize)]
pub enum FmtCfg {
    /// growable Vec<u8>
    Vec,
    /// real ArrayVec<u8, cap>
    Array { cap: usize },
    /// hook-based formatter: the j-th Formatter call fails with `err`
    Faulty {
        at: usize,
        err: ErrSpec,
        persistent: bool,
    },
}

#[derive(Clone, Debug, PartialEq, Serialize, Deserialize)]
pub struct SendStep {
    #[serde(default)]
    pub ctl: u8,
    pub fmt: FmtCfg,
    pub msg: Msg,
    #[serde(default, skip_serializing_if = "Vec::is_empty")]
    pub corrupt: Vec<Corrupt>,
}

#[derive(Clone, Debug, PartialEq, Eq, Serialize, Deserialize)]
pub enum QOp {
    Push(ErrSpec),
    Pop,
    Clear,
    Len,
    IsEmpty,
}

#[derive(Clone, Debug, PartialEq, Serialize, Deserialize)]
pub enum Step {
    Send(SendStep),
    /// controller drains its output queue (clears MAV)
    Read { ctl: u8 },
    /// hardware actor: new condition register value
    Hw(HwOp),
    /// hardware actor: result of the next self tests (0 = pass)
    Tst { code: i16 },
    /// direct operation on the error queue (C12 world)
    Q(QOp),
    /// the caller hands the next message a response buffer that already holds these bytes (a
    /// buffer reused without clearing, responses collected in one buffer, an echo)
    Prefill(B),
}

#[derive(Clone, Debug, PartialEq, Eq, Serialize, Deserialize)]
pub enum QueueCfg {
    Vec,
    Array { cap: usize },
}

#[derive(Clone, Debug, PartialEq, Serialize, Deserialize)]
pub struct Config {
    pub queue: QueueCfg,
    #[serde(default = "one")]
    pub controllers: u8,
    pub tree: TreeDesc,
    /// plain IEEE 488.2 wiring: `stb()` is the trait's default method instead of `scpi_stb()`
    #[serde(default, skip_serializing_if = "is_false")]
    pub plain488: bool,
    /// the interface never reports message-available: Context.mav is left alone (false) and the
    /// same Context is reused for every message of a controller
    #[serde(default, skip_serializing_if = "is_false")]
    pub no_mav: bool,
}

fn is_false(b: &bool) -> bool {
    !*b
}

fn one() -> u8 {
    1
}

#[derive(Clone, Debug, PartialEq, Serialize, Deserialize)]
pub struct ViolationInfo {
    pub invariant: String,
    pub signature: String,
    pub step: usize,
    pub detail: String,
}

#[derive(Clone, Debug, PartialEq, Serialize, Deserialize)]
pub struct Trace {
    pub v: u32,
    pub property: String,
    pub seed: u64,
    pub run: u64,
    pub profile: String,
    /// property-specific mode of the run (e.g. "history", "sweep", "enum")
    #[serde(default)]
    pub mode: String,
    pub config: Config,
    pub steps: Vec<Step>,
    #[serde(default, skip_serializing_if = "Option::is_none")]
    pub violation: Option<ViolationInfo>,
}
