//! Command-tree model: description, mnemonic matcher and header resolver written from the
//! property statements (C02/C03), random tree generation, and construction of the real
//! `scpi::tree::Node` tree from the same description.

use crate::rng::Rng;
use crate::types::*;

#[derive(Clone, Copy, Debug, PartialEq, Eq, Hash, PartialOrd, Ord)]
pub enum H {
    Sim(usize),
    Contrib(Contrib),
}

#[derive(Clone, Debug)]
pub enum MKind {
    Leaf(H),
    Branch(Vec<MNode>),
}

#[derive(Clone, Debug)]
pub struct MNode {
    pub name: String,
    pub default: bool,
    pub kind: MKind,
}

impl MNode {
    fn leaf(name: &str, default: bool, h: H) -> MNode {
        MNode {
            name: name.to_string(),
            default,
            kind: MKind::Leaf(h),
        }
    }
    fn branch(name: &str, default: bool, sub: Vec<MNode>) -> MNode {
        MNode {
            name: name.to_string(),
            default,
            kind: MKind::Branch(sub),
        }
    }
    pub fn children(&self) -> &[MNode] {
        match &self.kind {
            MKind::Branch(s) => s,
            MKind::Leaf(_) => &[],
        }
    }
}

pub const MANDATED_COMMON: &[(&str, Contrib)] = &[
    ("*CLS", Contrib::Cls),
    ("*ESE", Contrib::Ese),
    ("*ESR", Contrib::Esr),
    ("*IDN", Contrib::Idn),
    ("*OPC", Contrib::Opc),
    ("*RST", Contrib::Rst),
    ("*SRE", Contrib::Sre),
    ("*STB", Contrib::Stb),
    ("*TST", Contrib::Tst),
    ("*WAI", Contrib::Wai),
];

fn reg_branch(name: &str, reg: Reg) -> MNode {
    MNode::branch(
        name,
        false,
        vec![
            MNode::leaf("EVENt", true, H::Contrib(Contrib::StatReg(reg, RegCmd::Event))),
            MNode::leaf("CONDition", false, H::Contrib(Contrib::StatReg(reg, RegCmd::Condition))),
            MNode::leaf("ENABle", false, H::Contrib(Contrib::StatReg(reg, RegCmd::Enable))),
            MNode::leaf("NTRansition", false, H::Contrib(Contrib::StatReg(reg, RegCmd::Ntr))),
            MNode::leaf("PTRansition", false, H::Contrib(Contrib::StatReg(reg, RegCmd::Ptr))),
        ],
    )
}

/// The SCPI-99 mandated command set as the standard gives it (STATus / SYSTem subsystems,
/// IEEE 488.2 common commands) - written from the standard, not derived from the macros.
pub fn mandated_model() -> Vec<MNode> {
    let mut v: Vec<MNode> = MANDATED_COMMON
        .iter()
        .map(|(n, c)| MNode::leaf(n, false, H::Contrib(*c)))
        .collect();
    v.push(MNode::branch(
        "STATus",
        false,
        vec![
            reg_branch("OPERation", Reg::Oper),
            reg_branch("QUEStionable", Reg::Ques),
            MNode::leaf("PRESet", false, H::Contrib(Contrib::StatPreset)),
        ],
    ));
    v.push(MNode::branch(
        "SYSTem",
        false,
        vec![
            MNode::branch(
                "ERRor",
                false,
                vec![
                    MNode::leaf("NEXT", true, H::Contrib(Contrib::SystErrNext)),
                    MNode::leaf("ALL", false, H::Contrib(Contrib::SystErrAll)),
                    MNode::leaf("COUNt", false, H::Contrib(Contrib::SystErrCount)),
                ],
            ),
            MNode::leaf("VERSion", false, H::Contrib(Contrib::SystVersion)),
        ],
    ));
    v
}

fn from_tnode(t: &TNode) -> MNode {
    match t {
        TNode::Leaf { name, default, h } => MNode::leaf(name, *default, H::Sim(*h)),
        TNode::Branch { name, default, sub } => {
            MNode::branch(name, *default, sub.iter().map(from_tnode).collect())
        }
    }
}

/// What the documentation of the `Root!` / `Branch!` / `Leaf!` macros says the tree in
/// `device::MACRO_TREE` is (written from the macro documentation, not from their expansion).
pub fn macro_tree_model() -> Vec<MNode> {
    vec![
        MNode::leaf("*MAC", false, H::Sim(0)),
        // Branch![b"CONFigure" => h1; ...]: the branch itself is executable (anonymous default leaf)
        MNode::branch(
            "CONFigure",
            false,
            vec![
                MNode::leaf("", true, H::Sim(1)),
                MNode::leaf("VOLTage", false, H::Sim(2)),
                // Branch![default b"SCALar"; ...]
                MNode::branch(
                    "SCALar",
                    true,
                    vec![MNode::leaf("DC", true, H::Sim(3)), MNode::leaf("AC", false, H::Sim(4))],
                ),
            ],
        ),
        MNode::branch(
            "TRIGger2",
            false,
            vec![
                MNode::leaf("", true, H::Sim(5)),
                MNode::leaf("SOURce", false, H::Sim(6)),
                MNode::branch("SEQuence", false, vec![MNode::leaf("LEVel", false, H::Sim(7))]),
            ],
        ),
        MNode::branch("OUTPut", false, vec![MNode::leaf("STATe", true, H::Sim(8)), MNode::leaf("LEVel", false, H::Sim(9))]),
    ]
}

pub fn model_root(desc: &TreeDesc) -> MNode {
    if desc.fixed.as_deref() == Some("macro") {
        return MNode::branch("", false, macro_tree_model());
    }
    let mut sub = Vec::new();
    if desc.mandated {
        sub.extend(mandated_model());
    }
    sub.extend(desc.app.iter().map(from_tnode));
    MNode::branch("", false, sub)
}

// ------------------------------------------------------------------------------------------
// Matcher (the rule of C03's statement)

/// split "LONGform12" into ("LONGform", Some("12"))
pub fn split_suffix(s: &str) -> (&str, Option<&str>) {
    let b = s.as_bytes();
    let mut i = b.len();
    while i > 0 && b[i - 1].is_ascii_digit() {
        i -= 1;
    }
    if i == b.len() {
        (s, None)
    } else {
        (&s[..i], Some(&s[i..]))
    }
}

pub fn short_form(alpha: &str) -> &str {
    let n = alpha
        .bytes()
        .take_while(|c| !c.is_ascii_lowercase())
        .count();
    &alpha[..n]
}

/// Does candidate `cand` (as received) match the defined mnemonic `def` (`LONGform[n]`)?
pub fn mnemonic_matches(def: &str, cand: &str) -> bool {
    if def.is_empty() || cand.is_empty() {
        return false;
    }
    if def.starts_with('*') || cand.starts_with('*') {
        // common command: plain case-insensitive equality
        return def.eq_ignore_ascii_case(cand);
    }
    let (dalpha, dsuf) = split_suffix(def);
    let (calpha, csuf) = split_suffix(cand);
    let suffix_ok = match (dsuf, csuf) {
        (None, None) => true,
        (Some(d), None) => d == "1",
        (None, Some(c)) => c == "1",
        (Some(d), Some(c)) => d == c,
    };
    if !suffix_ok {
        return false;
    }
    let short = short_form(dalpha);
    calpha.eq_ignore_ascii_case(dalpha) || calpha.eq_ignore_ascii_case(short)
}

/// Two definitions are "ambiguous" when some candidate could match both.
pub fn defs_collide(a: &str, b: &str) -> bool {
    if a.is_empty() || b.is_empty() {
        return false;
    }
    let (aa, asuf) = split_suffix(a);
    let (ba, bsuf) = split_suffix(b);
    let an = asuf.unwrap_or("1");
    let bn = bsuf.unwrap_or("1");
    if an != bn {
        // a candidate carries one suffix; "absent" only ever equals "1"
        return false;
    }
    let forms = |x: &str| -> [String; 2] { [x.to_ascii_uppercase(), short_form(x).to_ascii_uppercase()] };
    let fa = forms(aa);
    let fb = forms(ba);
    fa.iter().any(|x| fb.contains(x))
}

// ------------------------------------------------------------------------------------------
// Resolver (C02's statement)

#[derive(Clone, Debug, PartialEq, Eq)]
pub enum Resolved {
    Leaf { h: H, level: Vec<usize> },
    Undefined,
}

pub fn node_at<'a>(root: &'a MNode, path: &[usize]) -> &'a MNode {
    let mut n = root;
    for i in path {
        n = &n.children()[*i];
    }
    n
}

#[derive(Clone, Copy, Debug, Default, PartialEq, Eq)]
pub struct ResolveInfo {
    /// number of default branches passed through implicitly while looking a mnemonic up
    pub implicit_default_branches: usize,
    /// the header ended on a branch and its default leaf was taken
    pub ended_on_branch: bool,
    /// default branches descended at the end of the header to reach the default leaf
    pub trailing_default_branches: usize,
    /// a "1" suffix was present on exactly one side of some match
    pub suffix1_elided_in_candidate: bool,
    pub suffix1_elided_in_definition: bool,
    /// the matched node has a default-leaf sibling (named child preferred over default leaf)
    pub named_child_beside_default_leaf: bool,
}

/// Find the child designated by `m` when standing at branch `at`: a matching child, else look
/// through the default child branch (recursively). Returns the full path of the found node.
fn find_from(root: &MNode, at: &[usize], m: &str, info: &mut ResolveInfo) -> Option<Vec<usize>> {
    let n = node_at(root, at);
    for (i, c) in n.children().iter().enumerate() {
        if mnemonic_matches(&c.name, m) {
            let mut p = at.to_vec();
            p.push(i);
            let (_, ds) = split_suffix(&c.name);
            let (_, cs) = split_suffix(m);
            if ds == Some("1") && cs.is_none() {
                info.suffix1_elided_in_candidate = true;
            }
            if ds.is_none() && cs == Some("1") {
                info.suffix1_elided_in_definition = true;
            }
            if n.children().iter().any(|x| x.default && matches!(x.kind, MKind::Leaf(_))) && !c.default {
                info.named_child_beside_default_leaf = true;
            }
            return Some(p);
        }
    }
    for (i, c) in n.children().iter().enumerate() {
        if c.default {
            if let MKind::Branch(_) = c.kind {
                let mut p = at.to_vec();
                p.push(i);
                info.implicit_default_branches += 1;
                return find_from(root, &p, m, info);
            }
        }
    }
    None
}

/// A header that ends on branch `at` designates its default leaf, else the default leaf of
/// its default branch (recursively).
fn default_of(root: &MNode, at: &[usize], info: &mut ResolveInfo) -> Option<H> {
    let n = node_at(root, at);
    for c in n.children() {
        if c.default {
            if let MKind::Leaf(h) = c.kind {
                return Some(h);
            }
        }
    }
    for (i, c) in n.children().iter().enumerate() {
        if c.default {
            if let MKind::Branch(_) = c.kind {
                let mut p = at.to_vec();
                p.push(i);
                info.trailing_default_branches += 1;
                return default_of(root, &p, info);
            }
        }
    }
    None
}

/// Resolve one unit header. `level` is the level left by the previous unit of the same
/// message (ignored for the first unit and for units with a leading colon).
pub fn resolve(root: &MNode, level: &[usize], first: bool, colon: bool, path: &[String]) -> Resolved {
    resolve_ex(root, level, first, colon, path).0
}

pub fn resolve_ex(root: &MNode, level: &[usize], first: bool, colon: bool, path: &[String]) -> (Resolved, ResolveInfo) {
    let mut info = ResolveInfo::default();
    if path.is_empty() {
        return (Resolved::Undefined, info);
    }
    if path[0].starts_with('*') {
        // common command: resolves at the root, does not move the level
        if path.len() != 1 {
            return (Resolved::Undefined, info);
        }
        return match find_from(root, &[], &path[0], &mut info) {
            Some(p) => match node_at(root, &p).kind {
                MKind::Leaf(h) => (
                    Resolved::Leaf {
                        h,
                        level: level.to_vec(),
                    },
                    info,
                ),
                _ => (Resolved::Undefined, info),
            },
            None => (Resolved::Undefined, info),
        };
    }
    let mut cur: Vec<usize> = if first || colon { vec![] } else { level.to_vec() };
    let mut new_level = cur.clone();
    for (k, m) in path.iter().enumerate() {
        let p = match find_from(root, &cur, m, &mut info) {
            Some(p) => p,
            None => return (Resolved::Undefined, info),
        };
        new_level = p[..p.len() - 1].to_vec();
        match &node_at(root, &p).kind {
            MKind::Leaf(h) => {
                if k + 1 == path.len() {
                    return (
                        Resolved::Leaf {
                            h: *h,
                            level: new_level,
                        },
                        info,
                    );
                } else {
                    return (Resolved::Undefined, info);
                }
            }
            MKind::Branch(_) => {
                cur = p;
            }
        }
    }
    info.ended_on_branch = true;
    match default_of(root, &cur, &mut info) {
        Some(h) => (Resolved::Leaf { h, level: new_level }, info),
        None => (Resolved::Undefined, info),
    }
}

// ------------------------------------------------------------------------------------------
// Random tree generation (inside the documented preconditions of the API)

const CONS: &[u8] = b"BCDFGHJKLMNPQRSTVWXZ";
const VOWS: &[u8] = b"AEIOUY";

fn gen_stem(rng: &mut Rng) -> String {
    // SHORTlong: 2-4 upper-case letters + 0-5 lower-case letters
    let up = rng.urange(2, 4);
    let lo = if rng.chance(1, 4) { 0 } else { rng.urange(1, 5) };
    let mut s = String::new();
    for i in 0..up {
        let set = if i % 2 == 0 { CONS } else { VOWS };
        s.push(*rng.pick(set) as char);
    }
    for i in 0..lo {
        let set = if (up + i) % 2 == 0 { CONS } else { VOWS };
        s.push((*rng.pick(set) as char).to_ascii_lowercase());
    }
    // IEEE 488.2 mnemonics may contain '_' (not as first character)
    // Only between two upper-case or two lower-case letters: whether a '_' sitting exactly between
    // the short-form part and the long-form tail belongs to the short form is not fixed by the
    // statements (the library treats it as part of the optional tail).
    if rng.chance(1, 10) && s.len() >= 3 && s.len() < 11 {
        let b = s.as_bytes();
        let spots: Vec<usize> = (1..s.len())
            .filter(|i| b[i - 1].is_ascii_uppercase() == b[*i].is_ascii_uppercase())
            .collect();
        if !spots.is_empty() {
            let at = *rng.pick(&spots);
            s.insert(at, '_');
        }
    }
    s
}

const RESERVED: &[&str] = &["STATus", "SYSTem"];

struct Gen<'a> {
    rng: &'a mut Rng,
    pool: Vec<String>,
    next_h: usize,
    max_depth: usize,
    max_fan: usize,
}

impl<'a> Gen<'a> {
    fn fresh_name(&mut self, forbidden: &[String]) -> Option<String> {
        for _ in 0..40 {
            // reuse a stem from the pool (same name in another scope) or invent one
            let stem = if !self.pool.is_empty() && self.rng.chance(1, 3) {
                self.rng.pick(&self.pool).clone()
            } else {
                let s = gen_stem(self.rng);
                if self.pool.len() < 12 {
                    self.pool.push(s.clone());
                }
                s
            };
            let name = match self.rng.below(12) {
                0 => format!("{}1", stem),
                1 => format!("{}{}", stem, self.rng.range(2, 9)),
                2 => format!("{}{}", stem, self.rng.range(10, 32)),
                3 => format!("{}{}", stem, self.rng.range(100, 999)),
                _ => stem,
            };
            if name.len() > 12 {
                continue;
            }
            if forbidden.iter().any(|f| defs_collide(f, &name))
                || RESERVED.iter().any(|f| defs_collide(f, &name))
            {
                continue;
            }
            return Some(name);
        }
        None
    }

    /// children of one branch. `inherited`: names visible from here through default links
    fn children(&mut self, depth: usize, inherited: &[String], at_root: bool) -> Vec<TNode> {
        let mut out: Vec<TNode> = Vec::new();
        let mut names: Vec<String> = inherited.to_vec();
        let n = self.rng.urange(1, self.max_fan);
        // optional default leaf (named or anonymous); never at the root
        let mut kinds: Vec<u8> = Vec::new(); // 0 default leaf, 1 default branch, 2 leaf, 3 branch, 4 suffixed family
        if !at_root && self.rng.chance(2, 5) {
            kinds.push(0);
        }
        if depth < self.max_depth && self.rng.chance(if at_root { 1 } else { 2 }, 6) {
            kinds.push(1);
        }
        while kinds.len() < n {
            let k = if depth < self.max_depth {
                *self.rng.pick(&[2u8, 2, 2, 3, 3, 4])
            } else {
                *self.rng.pick(&[2u8, 2, 2, 4])
            };
            kinds.push(k);
        }
        // names first (so that default-branch descendants can avoid all of them)
        let mut planned: Vec<(u8, String)> = Vec::new();
        for k in kinds {
            match k {
                0 => {
                    if self.rng.chance(1, 3) {
                        planned.push((0, String::new()));
                    } else if let Some(nm) = self.fresh_name(&names) {
                        names.push(nm.clone());
                        planned.push((0, nm));
                    }
                }
                4 => {
                    // family of numeric-suffixed siblings: STEM, STEM2, STEM3 or STEM1, STEM2
                    if let Some(base) = self.fresh_name(&names) {
                        let (alpha, _) = split_suffix(&base);
                        let alpha = alpha.to_string();
                        if alpha.len() <= 11 {
                            let cnt = self.rng.urange(2, 3);
                            let explicit_one = self.rng.chance(1, 2);
                            for j in 1..=cnt {
                                let nm = if j == 1 && !explicit_one {
                                    alpha.clone()
                                } else {
                                    format!("{}{}", alpha, j)
                                };
                                if names.iter().any(|f| defs_collide(f, &nm)) {
                                    continue;
                                }
                                names.push(nm.clone());
                                let kk = if depth < self.max_depth && self.rng.chance(1, 3) { 3 } else { 2 };
                                planned.push((kk, nm));
                            }
                        }
                    }
                }
                k => {
                    if let Some(nm) = self.fresh_name(&names) {
                        names.push(nm.clone());
                        planned.push((k, nm));
                    }
                }
            }
        }
        for (k, nm) in planned {
            match k {
                0 => {
                    let h = self.next_h;
                    self.next_h += 1;
                    out.push(TNode::Leaf {
                        name: nm,
                        default: true,
                        h,
                    });
                }
                2 => {
                    let h = self.next_h;
                    self.next_h += 1;
                    out.push(TNode::Leaf {
                        name: nm,
                        default: false,
                        h,
                    });
                }
                1 => {
                    // default branch: its descendants are visible from here
                    let sub = self.children(depth + 1, &names, false);
                    out.push(TNode::Branch {
                        name: nm,
                        default: true,
                        sub,
                    });
                }
                _ => {
                    let sub = self.children(depth + 1, &[], false);
                    out.push(TNode::Branch {
                        name: nm,
                        default: false,
                        sub,
                    });
                }
            }
        }
        if out.is_empty() {
            let h = self.next_h;
            self.next_h += 1;
            let nm = self.fresh_name(&names).unwrap_or_else(|| format!("ZQ{}", h));
            out.push(TNode::Leaf {
                name: nm,
                default: false,
                h,
            });
        }
        // the order of the children carries no meaning (names are distinct): every third branch
        // lists them in another order - a default branch in front of the default leaf, named
        // nodes in front of both
        if out.len() > 1 && self.rng.chance(1, 3) {
            for i in (1..out.len()).rev() {
                let j = self.rng.usize_below(i + 1);
                out.swap(i, j);
            }
        }
        out
    }
}

/// Random application tree. `commons`: number of extra `*XYZ` common commands at the root.
pub fn gen_tree(rng: &mut Rng, mandated: bool, max_depth: usize, max_fan: usize, commons: usize) -> TreeDesc {
    let mut g = Gen {
        rng,
        pool: Vec::new(),
        next_h: 0,
        max_depth,
        max_fan,
    };
    let mut app = g.children(1, &[], true);
    let mut used: Vec<String> = MANDATED_COMMON.iter().map(|x| x.0.to_string()).collect();
    for _ in 0..commons {
        for _ in 0..20 {
            let len = g.rng.urange(2, 4);
            let mut nm = String::from("*");
            for _ in 0..len {
                nm.push((b'A' + g.rng.below(26) as u8) as char);
            }
            if used.iter().any(|u| u.eq_ignore_ascii_case(&nm)) {
                continue;
            }
            used.push(nm.clone());
            let h = g.next_h;
            g.next_h += 1;
            app.push(TNode::Leaf {
                name: nm,
                default: false,
                h,
            });
            break;
        }
    }
    TreeDesc { mandated, app, fixed: None }
}

/// Check the documented preconditions on a description (used to keep minimised traces in the
/// oracle's domain).
pub fn tree_in_domain(desc: &TreeDesc) -> bool {
    fn visible(n: &MNode, acc: &mut Vec<String>) {
        for c in n.children() {
            if !c.name.is_empty() {
                acc.push(c.name.clone());
            }
        }
        for c in n.children() {
            if c.default {
                if let MKind::Branch(_) = c.kind {
                    visible(c, acc);
                }
            }
        }
    }
    fn check(n: &MNode) -> bool {
        if let MKind::Branch(sub) = &n.kind {
            let dl = sub.iter().filter(|c| c.default && matches!(c.kind, MKind::Leaf(_))).count();
            let db = sub.iter().filter(|c| c.default && matches!(c.kind, MKind::Branch(_))).count();
            if dl > 1 || db > 1 {
                return false;
            }
            let mut v = Vec::new();
            visible(n, &mut v);
            for i in 0..v.len() {
                for j in (i + 1)..v.len() {
                    if defs_collide(&v[i], &v[j]) || v[i].eq_ignore_ascii_case(&v[j]) {
                        return false;
                    }
                }
            }
            for c in sub {
                if c.name.len() > 12 {
                    return false;
                }
                if c.name.is_empty() && !(c.default && matches!(c.kind, MKind::Leaf(_))) {
                    return false;
                }
                if !check(c) {
                    return false;
                }
            }
        }
        true
    }
    check(&model_root(desc))
}

// ------------------------------------------------------------------------------------------
// Enumerating designations (used by workload generators)

#[derive(Clone, Debug)]
pub struct LeafInfo {
    /// node indices from the root
    pub path: Vec<usize>,
    pub h: H,
}

pub fn all_leaves(root: &MNode) -> Vec<LeafInfo> {
    fn rec(n: &MNode, p: &mut Vec<usize>, out: &mut Vec<LeafInfo>) {
        for (i, c) in n.children().iter().enumerate() {
            p.push(i);
            match &c.kind {
                MKind::Leaf(h) => out.push(LeafInfo {
                    path: p.clone(),
                    h: *h,
                }),
                MKind::Branch(_) => rec(c, p, out),
            }
            p.pop();
        }
    }
    let mut out = Vec::new();
    rec(root, &mut Vec::new(), &mut out);
    out
}

pub fn sim_handler_count(desc: &TreeDesc) -> usize {
    fn rec(t: &TNode, m: &mut usize) {
        match t {
            TNode::Leaf { h, .. } => *m = (*m).max(*h + 1),
            TNode::Branch { sub, .. } => sub.iter().for_each(|c| rec(c, m)),
        }
    }
    let mut m = 0;
    desc.app.iter().for_each(|c| rec(c, &mut m));
    m
}

/// Spell a defined mnemonic the way a controller might: short/long form, random case, with
/// the "1" suffix present or absent.
pub fn spell(rng: &mut Rng, def: &str) -> String {
    if def.starts_with('*') {
        return random_case(rng, def);
    }
    let (alpha, suf) = split_suffix(def);
    let base = if rng.chance(1, 2) { short_form(alpha) } else { alpha };
    let mut s = random_case(rng, base);
    match suf {
        Some("1") => {
            if rng.chance(1, 2) {
                s.push('1');
            }
        }
        Some(n) => s.push_str(n),
        None => {
            if rng.chance(1, 6) && s.len() < 12 {
                s.push('1');
            }
        }
    }
    s
}

pub fn random_case(rng: &mut Rng, s: &str) -> String {
    match rng.below(4) {
        0 => s.to_ascii_uppercase(),
        1 => s.to_ascii_lowercase(),
        2 => s.to_string(),
        _ => s
            .chars()
            .map(|c| {
                if rng.chance(1, 2) {
                    c.to_ascii_uppercase()
                } else {
                    c.to_ascii_lowercase()
                }
            })
            .collect(),
    }
}
