//! Counting global allocator. Counts heap allocations / reallocations made on the current
//! thread while "armed" - the harness arms it only around library code (`Node::run` minus the
//! harness callbacks inside it).

use std::alloc::{GlobalAlloc, Layout, System};
use std::cell::Cell;

pub struct Counting;

thread_local! {
    static ARMED: Cell<bool> = const { Cell::new(false) };
    static COUNT: Cell<u64> = const { Cell::new(0) };
    static BYTES: Cell<u64> = const { Cell::new(0) };
}

#[inline]
fn note(size: usize) {
    // try_with: never panic during thread teardown
    let _ = ARMED.try_with(|a| {
        if a.get() {
            let _ = COUNT.try_with(|c| c.set(c.get() + 1));
            let _ = BYTES.try_with(|c| c.set(c.get() + size as u64));
        }
    });
}

unsafe impl GlobalAlloc for Counting {
    unsafe fn alloc(&self, layout: Layout) -> *mut u8 {
        note(layout.size());
        System.alloc(layout)
    }
    unsafe fn dealloc(&self, ptr: *mut u8, layout: Layout) {
        System.dealloc(ptr, layout)
    }
    unsafe fn alloc_zeroed(&self, layout: Layout) -> *mut u8 {
        note(layout.size());
        System.alloc_zeroed(layout)
    }
    unsafe fn realloc(&self, ptr: *mut u8, layout: Layout, new_size: usize) -> *mut u8 {
        note(new_size);
        System.realloc(ptr, layout, new_size)
    }
}

pub fn set_armed(on: bool) -> bool {
    ARMED.with(|a| a.replace(on))
}

pub fn reset() {
    COUNT.with(|c| c.set(0));
    BYTES.with(|c| c.set(0));
}

pub fn count() -> u64 {
    COUNT.with(|c| c.get())
}

pub fn bytes() -> u64 {
    BYTES.with(|c| c.get())
}

/// Run harness code with counting suspended.
#[inline]
pub fn harness<R>(f: impl FnOnce() -> R) -> R {
    let prev = set_armed(false);
    let r = f();
    set_armed(prev);
    r
}

/// RAII: suspend counting for a scope (harness code), restore on drop.
pub struct Suspend(bool);
impl Suspend {
    pub fn new() -> Self {
        Suspend(set_armed(false))
    }
}
impl Drop for Suspend {
    fn drop(&mut self) {
        set_armed(self.0);
    }
}

/// Run library code from inside harness code with the previous armed state `was`.
#[inline]
pub fn library<R>(was: bool, f: impl FnOnce() -> R) -> R {
    let prev = set_armed(was);
    let r = f();
    set_armed(prev);
    r
}
