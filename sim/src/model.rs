//! Reference models, written from the property statements (never calling the library to
//! predict): bounded FIFO queue, status registers, status byte, error classes, and the
//! message interpreter that predicts what a well-formed (or catalogue-faulted) message does.

use crate::device::{datum_text, IDN_RESPONSE};
use crate::msg::expected_tok;
use crate::tree::{resolve, MNode, Resolved, H};
use crate::types::*;

// ------------------------------------------------------------------------------------------
// C14: error classes

/// Standard Event Status bit of an error/event number (IEEE 488.2 / SCPI-99 classes)
pub fn class_bit(code: i16) -> u8 {
    match code {
        -99..=0 => 0x00,
        -199..=-100 => 0x20,
        -299..=-200 => 0x10,
        -399..=-300 => 0x08,
        -499..=-400 => 0x04,
        -599..=-500 => 0x80,
        -699..=-600 => 0x40,
        -799..=-700 => 0x02,
        -899..=-800 => 0x01,
        _ => 0x08,
    }
}

pub fn is_command_error(code: i16) -> bool {
    (-199..=-100).contains(&code)
}
pub fn is_execution_error(code: i16) -> bool {
    (-299..=-200).contains(&code)
}

// ------------------------------------------------------------------------------------------
// C12: bounded FIFO

pub fn overflow_marker() -> ErrObs {
    ErrObs {
        code: -350,
        msg: B::from("Queue overflow"),
        ext: None,
    }
}

#[derive(Clone, Debug, PartialEq)]
pub struct QueueModel {
    pub items: Vec<ErrObs>,
    pub cap: Option<usize>,
}

impl QueueModel {
    pub fn new(cfg: &QueueCfg) -> Self {
        QueueModel {
            items: Vec::new(),
            cap: match cfg {
                QueueCfg::Vec => None,
                QueueCfg::Array { cap } => Some(*cap),
            },
        }
    }
    pub fn push(&mut self, e: ErrObs) {
        match self.cap {
            Some(c) if self.items.len() >= c => {
                // full: the new error is dropped, newest retained position reads -350
                if let Some(last) = self.items.last_mut() {
                    *last = overflow_marker();
                }
            }
            _ => self.items.push(e),
        }
    }
    pub fn pop(&mut self) -> Option<ErrObs> {
        if self.items.is_empty() {
            None
        } else {
            Some(self.items.remove(0))
        }
    }
    pub fn clear(&mut self) {
        self.items.clear()
    }
}

// ------------------------------------------------------------------------------------------
// C15: status register set

#[derive(Clone, Copy, Debug, PartialEq, Eq, Default)]
pub struct RegModel {
    pub cond: u16,
    pub event: u16,
    pub enable: u16,
    pub ptr: u16,
    pub ntr: u16,
    /// condition register not predictable (after STATus:PRESet, which the statement leaves open)
    pub cond_unknown: bool,
}

impl RegModel {
    pub fn set_condition(&mut self, new: u16) {
        for bit in 0..16 {
            let m = 1u16 << bit;
            let was = self.cond & m != 0;
            let now = new & m != 0;
            if !was && now && self.ptr & m != 0 {
                self.event |= m;
            }
            if was && !now && self.ntr & m != 0 {
                self.event |= m;
            }
        }
        self.cond = new;
    }
}

#[derive(Clone, Copy, Debug, PartialEq, Eq)]
pub enum Reading {
    /// summary = some enabled *condition* bit set (what the crate documents)
    Condition,
    /// summary = some enabled *event* bit set (SCPI-99 status model)
    Event,
}

#[derive(Clone, Debug, PartialEq)]
pub struct ModelState {
    pub esr: u8,
    pub ese: u8,
    pub sre: u8,
    pub oper: RegModel,
    pub ques: RegModel,
    pub queue: QueueModel,
    pub tst_code: i16,
    /// per controller: output queue non-empty (previous response unread)
    pub outq: Vec<bool>,
    /// plain IEEE 488.2 wiring: the status byte reports ESB, MAV and MSS only
    pub plain488: bool,
    /// the interface never reports message-available
    pub no_mav: bool,
    /// what the response buffer handed to the next message already holds
    pub prefill: Vec<u8>,
}

impl ModelState {
    pub fn reg(&mut self, r: Reg) -> &mut RegModel {
        match r {
            Reg::Oper => &mut self.oper,
            Reg::Ques => &mut self.ques,
        }
    }
    pub fn reg_ref(&self, r: Reg) -> &RegModel {
        match r {
            Reg::Oper => &self.oper,
            Reg::Ques => &self.ques,
        }
    }
    pub fn summary(&self, r: Reg, reading: Reading) -> Option<bool> {
        let g = self.reg_ref(r);
        match reading {
            Reading::Condition => {
                if g.cond_unknown {
                    None
                } else {
                    Some(g.cond & g.enable & 0x7fff != 0)
                }
            }
            Reading::Event => Some(g.event & g.enable & 0x7fff != 0),
        }
    }
    /// Status byte per C16's statement (bits 0/1 left 0). None if not predictable.
    pub fn stb(&self, mav: bool, reading: Reading) -> Option<u8> {
        let mut stb = 0u8;
        if self.plain488 {
            if mav {
                stb |= 0x10;
            }
            if self.esr & self.ese != 0 {
                stb |= 0x20;
            }
            if stb & self.sre & 0xBC != 0 {
                stb |= 0x40;
            }
            return Some(stb);
        }
        if !self.queue.items.is_empty() {
            stb |= 0x04;
        }
        if self.summary(Reg::Ques, reading)? {
            stb |= 0x08;
        }
        if mav {
            stb |= 0x10;
        }
        if self.esr & self.ese != 0 {
            stb |= 0x20;
        }
        if self.summary(Reg::Oper, reading)? {
            stb |= 0x80;
        }
        if stb & self.sre & 0xBC != 0 {
            stb |= 0x40;
        }
        Some(stb)
    }
    /// effect of a failed message: exactly its error queued, exactly its class bit set
    pub fn record_error(&mut self, e: &ErrObs) {
        self.esr |= class_bit(e.code);
        self.queue.push(e.clone());
    }
}

fn join_elements(items: Vec<Datum>) -> core::result::Result<Vec<u8>, ErrObs> {
    let mut v = Vec::new();
    for (k, d) in items.iter().enumerate() {
        if k > 0 {
            v.push(b',');
        }
        v.extend_from_slice(&datum_text(d)?);
    }
    Ok(v)
}

pub fn render_item(e: &ErrObs) -> Vec<u8> {
    let mut v = e.code.to_string().into_bytes();
    v.extend_from_slice(b",\"");
    // a string delimiter inside the description is doubled (IEEE 488.2 8.7.8)
    for b in e.msg.as_slice() {
        if *b == b'"' {
            v.push(b'"');
        }
        v.push(*b);
    }

    if let Some(x) = &e.ext {
        v.push(b';');
        v.extend_from_slice(x.as_slice());
    }
    v.push(b'"');
    v
}

pub fn no_error_item() -> Vec<u8> {
    b"0,\"No error\"".to_vec()
}

pub fn opc_event() -> ErrObs {
    ErrObs {
        code: -800,
        msg: B::from("Operation complete"),
        ext: None,
    }
}

// ------------------------------------------------------------------------------------------
// Message interpreter

#[derive(Clone, Debug, PartialEq)]
pub enum ExpErr {
    /// exactly this error (code, message, extended text)
    Exact(ErrObs),
    /// exactly this code
    Code(i16),
    /// any error in -100..-199
    CommandClass,
    /// any error in -200..-299
    ExecClass,
    /// one or the other (where no property fixes which of two faults of one unit is reported)
    Either(Box<ExpErr>, Box<ExpErr>),
}

impl ExpErr {
    pub fn accepts(&self, e: &ErrObs) -> bool {
        match self {
            ExpErr::Exact(x) => x == e,
            ExpErr::Code(c) => *c == e.code,
            ExpErr::CommandClass => is_command_error(e.code),
            ExpErr::ExecClass => is_execution_error(e.code),
            ExpErr::Either(a, b) => a.accepts(e) || b.accepts(e),
        }
    }
    pub fn describe(&self) -> String {
        match self {
            ExpErr::Exact(x) => format!("exactly {:?}", x),
            ExpErr::Code(c) => format!("code {}", c),
            ExpErr::CommandClass => "a command error (-100..-199)".to_string(),
            ExpErr::ExecClass => "an execution error (-200..-299)".to_string(),
            ExpErr::Either(a, b) => format!("{} or {}", a.describe(), b.describe()),
        }
    }
}

#[derive(Clone, Debug, PartialEq)]
pub enum ExpPull {
    Tok(Tok),
    Absent,
    Err(ExpErr),
    /// typed pull: outcome not predicted
    Any,
}

#[derive(Clone, Debug, PartialEq)]
pub struct ExpCall {
    pub unit: usize,
    pub h: usize,
    pub query: bool,
    pub pulls: Vec<ExpPull>,
    /// the handler of the failing unit may or may not have been entered (property is silent)
    pub optional: bool,
    /// pulls after this index are not predicted (typed pulls)
    pub pulls_exact: bool,
}

#[derive(Clone, Debug)]
pub struct Pred {
    /// false: the message is outside what the structural oracle can predict (typed pulls with
    /// conversion, keyword register values, ...). Only universal invariants then.
    pub structural: bool,
    pub calls: Vec<ExpCall>,
    pub result: Result<(), ExpErr>,
    pub fail_unit: Option<usize>,
    /// expected response buffer when the result is Ok (None: not predictable)
    pub out: Option<Vec<u8>>,
    /// per unit: response text (None for non-queries / not reached)
    pub unit_text: Vec<Option<Vec<u8>>>,
    /// predicted device state after the executed units, *before* the failure (if any) is recorded
    pub state: ModelState,
    /// state prediction valid (false when something unpredictable was touched)
    pub state_known: bool,
    /// which contrib commands were executed (effects applied), in order
    pub executed: Vec<(usize, Contrib, bool)>,
    /// number of units whose header resolved to a node
    pub resolved_units: usize,
    pub why_not_structural: Option<String>,
    /// Further, equally acceptable predictions, for the places where no property fixes which of
    /// two behaviours the library shows (see `predict_obs`): whether the handler of the unit at
    /// which a fixed-capacity buffer overflows in the unit separator is entered, and whether a
    /// read-and-clear query whose response could not be delivered has consumed what it read.
    pub alts: Vec<Pred>,
    /// (internal) this prediction passed a point where the framing discipline / the fate of an
    /// undelivered read matters
    pub alt_wanted: u16,
    /// the variant flags this prediction was made with
    pub variant: u16,
    /// set by the variant in which an undelivered `SYST:ERR:ALL?` consumed nothing: the queue as
    /// it was before that unit (any prefix of it may in fact have been consumed)
    pub all_read_from: Option<Vec<ErrObs>>,
}

/// variant flags of `predict_with`
pub const V_LAZY: u16 = 1; // unit separator written with the unit's first byte
pub const V_KEEP: u16 = 2; // an undelivered read-and-clear query consumed nothing
pub const V_OPCQ: u16 = 4; // `*OPC` sets its bit without leaving a -800 item in the queue
pub const V_LAZYC: u16 = 8; // like V_LAZY, but written at the unit's first header/data call (even an empty one)
pub const V_DEFER: u16 = 16; // separator attempted before the handler, its failure reported by the handler's finish()
pub const V_CLEAR: u16 = 32; // the formatter empties a non-empty buffer at message_start instead of appending to it
pub const V_NOWRITE: u16 = 64; // a mandated command whose unit is refused for surplus / malformed parameters has no effect
pub const V_TSTQ: u16 = 128; // a failing self-test is also reported to the error hook (queued, ESR bit) by `*TST?`
pub const V_NOEND: u16 = 256; // a buffer handed in non-empty gets a terminator only if this message wrote something
pub const V_QEND: u16 = 512; // the terminator is written whenever a query was executed, even if no query wrote anything


/// A syntactically valid non-decimal literal whose value needs more than 64 bits: no token can
/// carry its exact value, so it must be refused (a value fault: execution-error class).
pub fn nondec_wide(e: &Elem) -> bool {
    if let Elem::Raw(b) = e {
        // an element rewritten by a catalogued fault: does it (still) begin with such a literal?
        let b = b.as_slice();
        if b.len() >= 3 && b[0] == b'#' && matches!(b[1].to_ascii_uppercase(), b'H' | b'Q' | b'B') {
            let r = match b[1].to_ascii_uppercase() {
                b'H' => 16,
                b'Q' => 8,
                _ => 2,
            };
            let digits: String = b[2..].iter().take_while(|c| (**c as char).is_digit(r)).map(|c| *c as char).collect();
            return nondec_wide(&Elem::NonDec { radix: b[1] as char, digits });
        }
        return false;
    }
    if let Elem::NonDec { radix, digits } = e {
        let (r, k) = match radix.to_ascii_uppercase() {
            'H' => (16u32, 4usize),
            'Q' => (8, 3),
            'B' => (2, 1),
            _ => return false,
        };
        if digits.is_empty() || !digits.chars().all(|c| c.is_digit(r)) {
            return false;
        }
        let sig = digits.trim_start_matches('0');
        if sig.is_empty() {
            return false;
        }
        let first = sig.chars().next().unwrap().to_digit(r).unwrap();
        let bits = (sig.len() - 1) * k + (32 - first.leading_zeros()) as usize;
        return bits > 64;
    }
    false
}

/// position and error class of the first element at which lexing the parameters breaks
fn lex_break(u: &Unit) -> (usize, ExpErr) {
    let p = u.pfault.as_ref().map(|f| f.p).unwrap_or(usize::MAX);
    let w = u.params.iter().position(nondec_wide).unwrap_or(usize::MAX);
    if w < p {
        (w, ExpErr::ExecClass)
    } else if w == p && w != usize::MAX {
        // the unrepresentable literal is also the element carrying the syntax fault
        (p, ExpErr::Either(Box::new(ExpErr::CommandClass), Box::new(ExpErr::ExecClass)))
    } else {
        (p, ExpErr::CommandClass)
    }
}

enum Conv {
    Val(u64),
    Err(ExpErr),
    Unknown,
}

fn conv_unsigned(e: &Elem, max: u64) -> Conv {
    match e {
        Elem::Dec(s) => {
            let b = s.as_bytes();
            let (neg, digits) = match b.first() {
                Some(b'-') => (true, &s[1..]),
                Some(b'+') => (false, &s[1..]),
                _ => (false, &s[..]),
            };
            if digits.is_empty() || !digits.bytes().all(|c| c.is_ascii_digit()) {
                // NR2/NR3 spelling: only the cases no rounding rule can change are predicted
                return match decimal_magnitude(digits) {
                    Some(Magnitude::Huge) => Conv::Err(ExpErr::ExecClass),
                    // an integer written with a fraction part or exponent is still that integer
                    Some(Magnitude::Integer(v)) => {
                        if v == 0 {
                            Conv::Val(0)
                        } else if neg || v > max as u128 {
                            Conv::Err(ExpErr::ExecClass)
                        } else {
                            Conv::Val(v as u64)
                        }
                    }
                    // a fraction: rounding is value-level conversion (C07, n/a)
                    _ => Conv::Unknown,
                };
            }
            let v: u128 = match digits.parse() {
                Ok(v) => v,
                Err(_) => return Conv::Unknown,
            };
            if neg {
                if v == 0 {
                    Conv::Val(0)
                } else {
                    Conv::Err(ExpErr::ExecClass)
                }
            } else if v <= max as u128 {
                Conv::Val(v as u64)
            } else {
                Conv::Err(ExpErr::ExecClass)
            }
        }
        Elem::NonDec { .. } if nondec_wide(e) => Conv::Err(ExpErr::ExecClass),
        Elem::NonDec { .. } => match expected_tok(e) {
            Some(Tok::NonDec(v)) => {
                if v <= max {
                    Conv::Val(v)
                } else {
                    Conv::Err(ExpErr::ExecClass)
                }
            }
            _ => Conv::Unknown,
        },
        Elem::Chr(s) => {
            // MINimum / MAXimum keywords are accepted by the integer conversion
            let up = s.to_ascii_uppercase();
            if ["MIN", "MINIMUM", "MAX", "MAXIMUM"].contains(&up.as_str()) {
                Conv::Unknown
            } else {
                Conv::Err(ExpErr::CommandClass)
            }
        }
        Elem::DecSuf { .. } | Elem::Str { .. } | Elem::Blk { .. } | Elem::BlkIndef { .. } | Elem::Expr(_) => {
            Conv::Err(ExpErr::CommandClass)
        }
        Elem::Raw(_) => Conv::Unknown,
    }
}

/// Is converting element `e` to `ty` a data type error whatever the value is? (Only the
/// combinations the conversions' documentation fixes; everything else is value-level.)
pub fn clearly_wrong_type(ty: PullTy, e: &Elem) -> bool {
    let container = matches!(e, Elem::Str { .. } | Elem::Blk { .. } | Elem::BlkIndef { .. } | Elem::Expr(_));
    match ty {
        PullTy::U8
        | PullTy::I8
        | PullTy::U16
        | PullTy::I16
        | PullTy::U32
        | PullTy::I32
        | PullTy::U64
        | PullTy::I64
        | PullTy::Usize
        | PullTy::Isize
        | PullTy::F32
        | PullTy::F64
        | PullTy::Bool => container,
        PullTy::Bytes => !matches!(e, Elem::Str { .. } | Elem::Raw(_)),
        PullTy::Str => matches!(e, Elem::Chr(_) | Elem::Dec(_) | Elem::DecSuf { .. } | Elem::NonDec { .. } | Elem::Expr(_)),
        PullTy::Arb => !matches!(e, Elem::Blk { .. } | Elem::BlkIndef { .. } | Elem::Raw(_)),
        PullTy::Chr => !matches!(e, Elem::Chr(_) | Elem::Raw(_)),
        PullTy::NumList | PullTy::ChanList => !matches!(e, Elem::Expr(_) | Elem::Raw(_)),
        _ => false,
    }
}

enum Magnitude {
    /// far beyond any integer type (more than 40 integer digits)
    Huge,
    /// exactly this integer
    Integer(u128),
    /// has a fractional part
    Fraction,
}

/// Magnitude of an unsigned decimal literal `digits[.digits][E[+-]digits]`, exactly.
fn decimal_magnitude(s: &str) -> Option<Magnitude> {
    let (mant, exp) = match s.find(|c| c == 'e' || c == 'E') {
        Some(i) => (&s[..i], s[i + 1..].parse::<i64>().ok()?),
        None => (s, 0i64),
    };
    let (ip, fp) = match mant.find('.') {
        Some(i) => (&mant[..i], &mant[i + 1..]),
        None => (mant, ""),
    };
    if !ip.bytes().all(|c| c.is_ascii_digit()) || !fp.bytes().all(|c| c.is_ascii_digit()) || (ip.is_empty() && fp.is_empty()) {
        return None;
    }
    let mut digits: String = format!("{}{}", ip, fp);
    let mut e = exp - fp.len() as i64;
    // strip trailing zeros into the exponent, leading zeros away
    while digits.len() > 1 && digits.ends_with('0') {
        digits.pop();
        e += 1;
    }
    let digits = digits.trim_start_matches('0');
    if digits.is_empty() {
        return Some(Magnitude::Integer(0));
    }
    if e < 0 {
        // integer part has digits.len() + e digits
        if digits.len() as i64 + e > 40 {
            return Some(Magnitude::Huge);
        }
        return Some(Magnitude::Fraction);
    }
    if digits.len() as i64 + e > 38 {
        return Some(Magnitude::Huge);
    }
    let mut v: u128 = digits.parse().ok()?;
    for _ in 0..e {
        v = v.checked_mul(10)?;
    }
    Some(Magnitude::Integer(v))
}

struct Interp<'a> {
    root: &'a MNode,
    st: ModelState,
    reading: Reading,
    mav: bool,
    out: Vec<u8>,
    out_known: bool,
    state_known: bool,
    structural: bool,
    why: Option<String>,
    calls: Vec<ExpCall>,
    unit_text: Vec<Option<Vec<u8>>>,
    executed: Vec<(usize, Contrib, bool)>,
    /// alternative framing discipline: the unit separator is written together with the first
    /// byte of the unit (a unit without output leaves no trace) instead of before the handler
    lazy: bool,
    pending_sep: bool,
    opc_quiet: bool,
    opc_seen: bool,
    lazy_call: bool,
    nowrite: bool,
    tstq: bool,
    /// further open choices met while interpreting (variant flags)
    wants: u16,
}

enum UnitEnd {
    Ok,
    /// the handler itself returned this error
    FailByHandler(ExpErr),
    /// the handler returned Ok (or was never entered); the dispatcher raised this error
    Fail(ExpErr),
}

impl<'a> Interp<'a> {
    fn begin_response_unit(&mut self) {
        if self.lazy {
            self.pending_sep = !self.out.is_empty();
        } else if !self.out.is_empty() {
            self.out.push(b';');
        }
    }

    /// the handler makes a header/data call
    fn touch(&mut self) {
        if self.lazy_call && self.pending_sep {
            self.pending_sep = false;
            self.out.push(b';');
        }
    }

    fn write(&mut self, text: &[u8]) {
        if text.is_empty() {
            return;
        }
        if self.pending_sep {
            self.pending_sep = false;
            self.out.push(b';');
        }
        self.out.extend_from_slice(text);
    }

    fn not_structural(&mut self, why: &str) {
        if self.structural {
            self.structural = false;
            self.why = Some(why.to_string());
        }
        self.out_known = false;
        self.state_known = false;
    }

    fn sim_unit(&mut self, i: usize, u: &Unit, h: usize) -> UnitEnd {
        let plan = &u.plan;
        let n = u.params.len();
        let (p, perr) = lex_break(u);
        let mut call = ExpCall {
            unit: i,
            h,
            query: u.query,
            pulls: Vec::new(),
            optional: false,
            pulls_exact: true,
        };
        if u.query {
            self.begin_response_unit();
        }
        if let Some(hw) = &plan.hw {
            let g = self.st.reg(hw.reg);
            let t = hw.target(g.cond);
            g.set_condition(t);
        }
        let fail_at = |ph: Phase| -> Option<ExpErr> {
            plan.fail.as_ref().and_then(|f| {
                if f.phase == ph {
                    Some(ExpErr::Exact(spec_obs(&f.err)))
                } else {
                    None
                }
            })
        };
        if let Some(e) = fail_at(Phase::Before) {
            self.calls.push(call);
            return UnitEnd::FailByHandler(e);
        }
        if plan.swallow {
            if let Some(f) = &u.pfault {
                if !crate::gen::ELEMENT_FAULTS.contains(&f.kind.as_str()) {
                    // separator-level faults interact with a tolerant handler in ways the
                    // statement does not fix
                    self.not_structural("tolerant handler with a separator fault");
                }
            }
        }
        let mut pulled = 0usize;
        let mut lex_broken = false;
        for (j, pull) in plan.pulls.iter().enumerate() {
            if pulled >= p {
                // lexing breaks here (and stays broken: the faulty element is never consumed)
                call.pulls.push(ExpPull::Err(perr.clone()));
                if plan.swallow {
                    lex_broken = true;
                    continue;
                }
                self.calls.push(call);
                return UnitEnd::FailByHandler(perr);
            }
            if pulled < n {
                if pull.ty != PullTy::Tok && clearly_wrong_type(pull.ty, &u.params[pulled]) {
                    // a conversion that cannot succeed whatever the value: data type error
                    call.pulls.push(ExpPull::Err(ExpErr::CommandClass));
                    pulled += 1;
                    if plan.swallow {
                        continue;
                    }
                    self.calls.push(call);
                    return UnitEnd::FailByHandler(ExpErr::CommandClass);
                }
                if pull.ty == PullTy::Tok {
                    match expected_tok(&u.params[pulled]) {
                        Some(t) => call.pulls.push(ExpPull::Tok(t)),
                        None => {
                            call.pulls.push(ExpPull::Any);
                            self.not_structural("raw element without fault annotation");
                        }
                    }
                } else {
                    // typed conversion: value-level semantics are not predicted
                    call.pulls.push(ExpPull::Any);
                    call.pulls_exact = false;
                    self.calls.push(call);
                    self.not_structural("typed pull");
                    return UnitEnd::Ok;
                }
                pulled += 1;
            } else if pull.req {
                call.pulls.push(ExpPull::Err(ExpErr::Code(-109)));
                if plan.swallow {
                    continue;
                }
                self.calls.push(call);
                return UnitEnd::FailByHandler(ExpErr::Code(-109));
            } else {
                call.pulls.push(ExpPull::Absent);
            }
            if let Some(e) = fail_at(Phase::AfterPull(j)) {
                self.calls.push(call);
                return UnitEnd::FailByHandler(e);
            }
        }
        if let Some(e) = fail_at(Phase::AfterPulls) {
            self.calls.push(call);
            return UnitEnd::FailByHandler(e);
        }
        if u.query {
            let mut text: Vec<u8> = Vec::new();
            if !plan.hdr.is_empty() || !plan.data.is_empty() {
                self.touch();
            }
            for (k, hd) in plan.hdr.iter().enumerate() {
                if k > 0 {
                    text.push(b':');
                }
                text.extend_from_slice(hd.as_bytes());
            }
            // the first write that fails is latched by the response unit: later data are not
            // written, finish() reports it
            let mut latched: Option<ErrObs> = None;
            for (k, d) in plan.data.iter().enumerate() {
                if latched.is_none() {
                    if k > 0 {
                        text.push(b',');
                    } else if !plan.hdr.is_empty() {
                        text.push(b' ');
                    }
                    let dt = match d {
                        // an error/event queue item is two response data elements: <NR1>,<string>
                        Datum::Err(spec) => Ok(render_item(&spec_obs(spec))),
                        // lists: the elements, each formatted on its own, joined by the data separator
                        Datum::ArrList(l) => join_elements(l.iter().map(|x| Datum::I64(*x as i64)).collect()),
                        Datum::VecList(l) => join_elements(l.iter().map(|x| Datum::U64(*x as u64)).collect()),
                        Datum::ChrList(l) => join_elements(l.iter().map(|x| Datum::Chr(x.clone())).collect()),
                        // <STRING RESPONSE DATA> (IEEE 488.2 8.7.8): double quotes around the text,
                        // a double quote inside it doubled
                        Datum::Str(b) if b.as_slice().is_ascii() => {
                            let mut v = vec![b'"'];
                            for c in b.as_slice() {
                                if *c == b'"' {
                                    v.push(b'"');
                                }
                                v.push(*c);
                            }
                            v.push(b'"');
                            Ok(v)
                        }
                        other => datum_text(other),
                    };
                    match dt {
                        Ok(t) => text.extend_from_slice(&t),
                        Err(e) => latched = Some(e),
                    }
                }
                if let (Some(e), true, false) = (&latched, plan.finish_each, plan.finish_ignore) {
                    // the handler asks finish() after every datum and returns what it says
                    let e = e.clone();
                    self.write(&text);
                    self.calls.push(call);
                    return UnitEnd::FailByHandler(ExpErr::Exact(e));
                }
                if let Some(e) = fail_at(Phase::AfterDatum(k)) {
                    self.write(&text);
                    self.calls.push(call);
                    return UnitEnd::FailByHandler(e);
                }
            }
            if let Some(e) = latched {
                self.write(&text);
                self.calls.push(call);
                return UnitEnd::FailByHandler(ExpErr::Exact(e));
            }
            self.write(&text);
            self.unit_text[i] = Some(text);
        }
        self.calls.push(call);
        let _ = lex_broken;
        // left-over check
        if pulled < n || p != usize::MAX {
            if p != usize::MAX && perr != ExpErr::ExecClass {
                return UnitEnd::Fail(perr);
            }
            if pulled == p {
                // the unconsumed element is the unrepresentable one: refused for what it is
                // (directly if it is the first element; behind a `,` the surplus may be
                // reported first)
                return UnitEnd::Fail(if p == 0 { perr } else { ExpErr::Either(Box::new(ExpErr::Code(-108)), Box::new(perr)) });
            }
            return UnitEnd::Fail(ExpErr::Code(-108));
        }
        UnitEnd::Ok
    }

    fn respond(&mut self, i: usize, text: Vec<u8>) {
        self.write(&text);
        self.unit_text[i] = Some(text);
    }

    fn contrib_unit(&mut self, i: usize, u: &Unit, c: Contrib) -> UnitEnd {
        let n = u.params.len();
        let (p, perr) = lex_break(u);
        // which forms exist (the others are the default stubs: -113)
        let (has_event, has_query) = match c {
            Contrib::Cls | Contrib::Rst | Contrib::Wai | Contrib::StatPreset => (true, false),
            Contrib::Ese | Contrib::Sre | Contrib::Opc => (true, true),
            Contrib::Esr | Contrib::Idn | Contrib::Stb | Contrib::Tst => (false, true),
            Contrib::StatReg(_, RegCmd::Event) | Contrib::StatReg(_, RegCmd::Condition) => (false, true),
            Contrib::StatReg(_, _) => (true, true),
            Contrib::SystErrNext | Contrib::SystErrAll | Contrib::SystErrCount | Contrib::SystVersion => (false, true),
        };
        if u.query {
            self.begin_response_unit();
        }
        if (u.query && !has_query) || (!u.query && !has_event) {
            return UnitEnd::FailByHandler(ExpErr::Code(-113));
        }
        // parameters beyond what the command takes (or a lexical fault among them): the unit is
        // going to be refused. Whether the command acted first is an open choice (V_NOWRITE: it
        // validates its whole parameter list first, has no effect and reports that fault).
        let takes_one = !u.query
            && matches!(
                c,
                Contrib::Ese | Contrib::Sre | Contrib::StatReg(_, RegCmd::Enable) | Contrib::StatReg(_, RegCmd::Ntr) | Contrib::StatReg(_, RegCmd::Ptr)
            );
        let refused_later = n > takes_one as usize || (p != usize::MAX && p >= takes_one as usize);
        if refused_later {
            self.wants |= V_NOWRITE;
            if self.nowrite {
                self.executed.push((i, c, u.query));
                let e = if p != usize::MAX { perr } else { ExpErr::Code(-108) };
                // (the fault may also be reported by the dispatcher after the handler)
                return UnitEnd::FailByHandler(ExpErr::Either(Box::new(e), Box::new(ExpErr::CommandClass)));
            }
        }
        self.executed.push((i, c, u.query));
        let mut consumed = 0usize;
        if u.query {
            let text: Option<Vec<u8>> = match c {
                Contrib::Ese => Some(self.st.ese.to_string().into_bytes()),
                Contrib::Sre => Some(self.st.sre.to_string().into_bytes()),
                Contrib::Esr => {
                    let v = self.st.esr;
                    self.st.esr = 0;
                    Some(v.to_string().into_bytes())
                }
                Contrib::Idn => Some(IDN_RESPONSE.to_vec()),
                Contrib::Opc => Some(b"1".to_vec()),
                Contrib::Stb => self.st.stb(self.mav, self.reading).map(|v| v.to_string().into_bytes()),
                Contrib::Tst => {
                    if self.st.tst_code != 0 {
                        self.wants |= V_TSTQ;
                        if self.tstq {
                            let e = spec_obs(&ErrSpec {
                                code: self.st.tst_code,
                                ext: None,
                                msg: 0,
                            });
                            self.st.record_error(&e);
                        }
                    }
                    Some(self.st.tst_code.to_string().into_bytes())
                }
                Contrib::StatReg(r, RegCmd::Event) => {
                    let g = self.st.reg(r);
                    let v = g.event & 0x7fff;
                    g.event = 0;
                    Some(v.to_string().into_bytes())
                }
                Contrib::StatReg(r, RegCmd::Condition) => {
                    let g = self.st.reg_ref(r);
                    if g.cond_unknown {
                        None
                    } else {
                        Some((g.cond & 0x7fff).to_string().into_bytes())
                    }
                }
                Contrib::StatReg(r, RegCmd::Enable) => Some((self.st.reg_ref(r).enable & 0x7fff).to_string().into_bytes()),
                Contrib::StatReg(r, RegCmd::Ntr) => Some((self.st.reg_ref(r).ntr & 0x7fff).to_string().into_bytes()),
                Contrib::StatReg(r, RegCmd::Ptr) => Some((self.st.reg_ref(r).ptr & 0x7fff).to_string().into_bytes()),
                Contrib::SystErrNext => Some(match self.st.queue.pop() {
                    Some(e) => render_item(&e),
                    None => no_error_item(),
                }),
                Contrib::SystErrCount => Some(self.st.queue.items.len().to_string().into_bytes()),
                Contrib::SystErrAll => {
                    if self.st.queue.items.is_empty() {
                        Some(no_error_item())
                    } else {
                        let mut v = Vec::new();
                        for (k, e) in self.st.queue.items.iter().enumerate() {
                            if k > 0 {
                                v.push(b',');
                            }
                            v.extend_from_slice(&render_item(e));
                        }
                        self.st.queue.clear();
                        Some(v)
                    }
                }
                Contrib::SystVersion => Some(b"1999.0".to_vec()),
                Contrib::Cls | Contrib::Rst | Contrib::Wai | Contrib::StatPreset => unreachable!(),
            };
            match text {
                Some(t) => self.respond(i, t),
                None => {
                    self.out_known = false;
                }
            }
        } else {
            // event forms
            let takes = match c {
                Contrib::Ese | Contrib::Sre => Some(0xffu64),
                Contrib::StatReg(_, RegCmd::Enable) | Contrib::StatReg(_, RegCmd::Ntr) | Contrib::StatReg(_, RegCmd::Ptr) => {
                    Some(0xffffu64)
                }
                _ => None,
            };
            if let Some(max) = takes {
                if p == 0 {
                    return UnitEnd::FailByHandler(perr);
                }
                if n == 0 {
                    return UnitEnd::FailByHandler(ExpErr::Code(-109));
                }
                let v = match conv_unsigned(&u.params[0], max) {
                    Conv::Val(v) => v,
                    Conv::Err(e) => return UnitEnd::FailByHandler(e),
                    Conv::Unknown => {
                        self.not_structural("register value spelled as NR2/NR3/keyword (C07, n/a)");
                        return UnitEnd::Ok;
                    }
                };
                consumed = 1;
                match c {
                    Contrib::Ese => self.st.ese = v as u8,
                    Contrib::Sre => self.st.sre = v as u8,
                    Contrib::StatReg(r, RegCmd::Enable) => self.st.reg(r).enable = v as u16,
                    Contrib::StatReg(r, RegCmd::Ntr) => self.st.reg(r).ntr = v as u16,
                    Contrib::StatReg(r, RegCmd::Ptr) => self.st.reg(r).ptr = v as u16,
                    _ => unreachable!(),
                }
            } else {
                match c {
                    Contrib::Cls => {
                        self.st.esr = 0;
                        self.st.oper.event = 0;
                        self.st.ques.event = 0;
                        self.st.queue.clear();
                    }
                    Contrib::Opc => {
                        self.st.esr |= 0x01;
                        // SCPI-99 21.8.7: queueing the -800 event is optional
                        self.opc_seen = true;
                        if !self.opc_quiet {
                            self.st.queue.push(opc_event());
                        }
                    }
                    Contrib::Rst | Contrib::Wai => {}
                    Contrib::StatPreset => {
                        for r in [Reg::Oper, Reg::Ques] {
                            let g = self.st.reg(r);
                            g.enable = 0;
                            g.ptr = 0xffff;
                            g.ntr = 0;
                            // the statement does not say what happens to the condition register
                            g.cond_unknown = true;
                        }
                        self.state_known = false;
                    }
                    _ => unreachable!(),
                }
            }
        }
        // left-over check after the handler returned Ok
        if p != usize::MAX && perr != ExpErr::ExecClass {
            return UnitEnd::Fail(perr);
        }
        if p != usize::MAX && consumed == p {
            return UnitEnd::Fail(if p == 0 { perr } else { ExpErr::Either(Box::new(ExpErr::Code(-108)), Box::new(perr)) });
        }
        if consumed < n {
            return UnitEnd::Fail(ExpErr::Code(-108));
        }
        UnitEnd::Ok
    }
}

pub fn spec_obs(s: &ErrSpec) -> ErrObs {
    // what the library's accessors must report for an injected error: the code and texts given
    crate::device::obs_err(&crate::device::build_err(s))
}

/// Predict what executing `msg` does to a device in state `st` (controller `ctl`'s MAV taken
/// from `st.outq`). Formatter capacity `cap` (None = unbounded).
pub fn predict(root: &MNode, st: &ModelState, step: &SendStep, reading: Reading) -> Pred {
    let mut p = predict_with(root, st, step, reading, 0);
    let mut wanted = p.alt_wanted;
    if wanted != 0 {
        // all combinations of the choices that matter for this message (a choice may make a
        // further one matter: iterate to the fixpoint)
        loop {
            let mut alts = Vec::new();
            let mut more = wanted;
            if wanted & V_LAZY != 0 {
                wanted |= V_LAZYC;
                more |= V_LAZYC;
            }
            for m in 1u16..1024 {
                // (the three framing alternatives exclude each other)
                if m & !wanted != 0 || (m & (V_LAZY | V_LAZYC | V_DEFER)).count_ones() > 1 || (m & (V_CLEAR | V_NOEND)).count_ones() > 1 {
                    continue;
                }
                let a = predict_with(root, st, step, reading, m);
                more |= a.alt_wanted;
                alts.push(a);
            }
            if more == wanted {
                p.alts = alts;
                break;
            }
            wanted = more;
        }
    }
    p
}

/// What `predict_obs` may choose from beyond the variants of `predict` - per property, because
/// these are ruled out by some statements and left open by others.
pub const A_PRESCAN_MSG: u8 = 1; // the whole message is lexed first; with a lexical fault anywhere nothing is executed (not C05: "the first unit that fails")
pub const A_PRESCAN_UNIT: u8 = 2; // each unit is lexed before it is dispatched; a lexically broken unit never reaches its handler
pub const A_TSTQ: u8 = 4; // V_TSTQ (not C13: "a message that succeeds queues no error")
pub const A_QEND: u8 = 8; // V_QEND (not C10: "a newline iff some query produced output")
pub const A_ALL: u8 = 15;

/// The prediction that fits what was observed: `predict`, or one of its alternatives where the
/// observation (number of handler invocations, result, device state afterwards, response) fits
/// that one and not the primary. Every alternative is acceptable to the property that asks
/// (`allow`); everything else is then checked against the chosen one.
#[allow(clippy::too_many_arguments)]
pub fn predict_obs(
    root: &MNode,
    st: &ModelState,
    step: &SendStep,
    reading: Reading,
    sim_calls: usize,
    result: &Result<(), ErrObs>,
    out: &[u8],
    now: &ModelState,
    lex: &Option<(usize, ErrObs)>,
    allow: u8,
) -> Pred {
    let mut p = predict(root, st, step, reading);
    if !p.structural {
        return p;
    }
    let mut alts = std::mem::take(&mut p.alts);
    if allow & A_TSTQ == 0 {
        alts.retain(|a| a.variant & V_TSTQ == 0);
    }
    if allow & A_QEND == 0 {
        alts.retain(|a| a.variant & V_QEND == 0);
    }
    // a lexical fault somewhere in the message, met by an implementation that looks ahead.
    // Only for faults the MODEL knows about (catalogued faults, unrepresentable literals): what
    // the library's own tokenizer says about the bytes is never used to excuse anything - a
    // tokenizer that wrongly refuses a well-formed message must not be able to vouch for itself.
    let _ = lex;
    let first_fault = step
        .msg
        .units
        .iter()
        .position(|u| u.hfault.is_some() || u.pfault.is_some() || u.params.iter().any(nondec_wide));
    if let (Some(k), true) = (first_fault, step.corrupt.is_empty()) {
        // (which of several faults a look-ahead meets first depends on which of them are lexical:
        // any of their classes)
        let both = ExpErr::Either(Box::new(ExpErr::CommandClass), Box::new(ExpErr::ExecClass));
        let wide_in = |u: &Unit| u.params.iter().any(nondec_wide);
        let class_unit = if wide_in(&step.msg.units[k]) { both.clone() } else { ExpErr::CommandClass };
        let class_msg = if step.msg.units.iter().any(wide_in) { both.clone() } else { ExpErr::CommandClass };
        let mut at: Vec<usize> = Vec::new();
        if allow & A_PRESCAN_UNIT != 0 {
            at.push(k);
        }
        if allow & A_PRESCAN_MSG != 0 && k != 0 {
            at.push(0);
        }
        for j in at {
            let mut s2 = step.clone();
            s2.msg.units[j].hfault = Some(("refused_by_look_ahead".to_string(), B::new()));
            let mut a = predict_with(root, st, &s2, reading, 0);
            if a.structural && a.fail_unit == Some(j) {
                a.result = Err(if j == k && (k != 0 || allow & A_PRESCAN_MSG == 0) { class_unit.clone() } else { class_msg.clone() });
                alts.push(a);
            }
        }
    }
    if alts.is_empty() {
        return p;
    }
    let masked = |a: &RegModel, b: &RegModel| {
        // (bit 15 is never reported: what the raw field holds there is not observable)
        let m = 0x7fffu16;
        a.event & m == b.event & m && a.enable & m == b.enable & m && a.ptr & m == b.ptr & m && a.ntr & m == b.ntr & m && (a.cond_unknown || a.cond & m == b.cond & m)
    };
    let fits = |q: &mut Pred| {
        if !q.structural || q.calls.len() != sim_calls {
            return false;
        }
        let res_ok = match (&q.result, result) {
            (Ok(()), Ok(())) => true,
            (Err(x), Err(e)) => x.accepts(e),
            _ => false,
        };
        if !res_ok {
            return false;
        }
        {
            // (after STATus:PRESet only the condition registers are unknown: cond_unknown)
            let mut e = q.state.clone();
            if let Err(x) = result {
                e.record_error(x);
            }
            if let Some(orig) = &q.all_read_from {
                // an undelivered `SYST:ERR:ALL?`: any number of the oldest items may have been
                // consumed before the response failed, the rest is kept in order
                let mut found = false;
                for k in 0..=orig.len() {
                    let mut e2 = q.state.clone();
                    e2.queue.items = orig[k..].to_vec();
                    if let Err(x) = result {
                        e2.record_error(x);
                    }
                    if e2.queue.items == now.queue.items {
                        q.state.queue.items = orig[k..].to_vec();
                        e = e2;
                        found = true;
                        break;
                    }
                }
                if !found {
                    return false;
                }
            }
            if !(e.esr == now.esr && e.ese == now.ese && e.sre == now.sre && e.queue.items == now.queue.items && masked(&e.oper, &now.oper) && masked(&e.ques, &now.ques)) {
                return false;
            }
        }
        match (&q.out, result) {
            (Some(o), Ok(())) => o.as_slice() == out,
            _ => true,
        }
    };
    if fits(&mut p) {
        return p;
    }
    let dbg = std::env::var("VERIF_DEBUG").is_ok();
    for (k, mut a) in alts.into_iter().enumerate() {
        let f = fits(&mut a);
        if dbg {
            eprintln!("DEBUG alt {} (variant {:#04x}): calls={} result={:?} fail_unit={:?} esr={} queue={:?} -> fits={}", k, a.variant, a.calls.len(), a.result.as_ref().map_err(|e| e.describe()), a.fail_unit, a.state.esr, a.state.queue.items, f);
        }
        if f {
            return a;
        }
    }
    if dbg {
        eprintln!("DEBUG observed: calls={} result={:?} esr={} queue={:?}", sim_calls, result, now.esr, now.queue.items);
    }
    p
}

fn predict_with(root: &MNode, st: &ModelState, step: &SendStep, reading: Reading, variant: u16) -> Pred {
    let lazy = variant & (V_LAZY | V_LAZYC) != 0;
    let keep = variant & V_KEEP != 0;
    let defer = variant & V_DEFER != 0;
    let msg = &step.msg;
    let mav = !st.no_mav && st.outq.get(step.ctl as usize).copied().unwrap_or(false);
    let mut it = Interp {
        root,
        st: {
            let mut s = st.clone();
            s.prefill.clear();
            s
        },
        reading,
        mav,
        out: if variant & V_CLEAR != 0 { Vec::new() } else { st.prefill.clone() },
        out_known: true,
        state_known: true,
        structural: true,
        why: None,
        calls: Vec::new(),
        unit_text: vec![None; msg.units.len()],
        executed: Vec::new(),
        lazy,
        pending_sep: false,
        opc_quiet: variant & V_OPCQ != 0,
        opc_seen: false,
        lazy_call: variant & V_LAZYC != 0,
        nowrite: variant & V_NOWRITE != 0,
        tstq: variant & V_TSTQ != 0,
        wants: 0,
    };
    let start_len = it.out.len();
    let cap = match &step.fmt {
        FmtCfg::Array { cap } => Some(*cap),
        _ => None,
    };
    let mut result: Result<(), ExpErr> = Ok(());
    let mut alt_wanted = if st.prefill.is_empty() { 0u16 } else { V_CLEAR | V_NOEND };
    let mut all_read_from: Option<Vec<ErrObs>> = None;
    let mut fail_unit = None;
    let mut level: Vec<usize> = Vec::new();
    let mut resolved_units = 0;
    if !step.corrupt.is_empty() {
        it.not_structural("corrupted in flight");
    } else {
        for (i, u) in msg.units.iter().enumerate() {
            if u.hfault.is_some() {
                result = Err(ExpErr::CommandClass);
                fail_unit = Some(i);
                break;
            }
            let r = resolve(it.root, &level, i == 0, u.colon, &u.path);
            let (h, new_level) = match r {
                Resolved::Undefined => {
                    result = Err(ExpErr::Code(-113));
                    fail_unit = Some(i);
                    break;
                }
                Resolved::Leaf { h, level } => (h, level),
            };
            resolved_units += 1;
            level = new_level;
            let len_before = it.out.len();
            let st_before_unit = it.st.clone();
            let executed_before = it.executed.len();
            let entered_before = it.calls.len() + it.executed.len();
            let end = match h {
                H::Sim(id) => it.sim_unit(i, u, id),
                H::Contrib(c) => it.contrib_unit(i, u, c),
            };
            // a handler that raises its own error while data elements of its unit are still
            // unread (or malformed further on): the unit has two faults, and which one is
            // reported is not fixed - the handler's, or the command error for the parameters
            let end = match end {
                UnitEnd::FailByHandler(e) if matches!(h, H::Sim(_)) && !matches!(e, ExpErr::CommandClass | ExpErr::Either(..)) => {
                    let n = u.params.len();
                    let (p, _) = lex_break(u);
                    let read = match &u.plan.fail {
                        Some(f) if e == ExpErr::Exact(spec_obs(&f.err)) => match f.phase {
                            Phase::Before => 0,
                            Phase::AfterPull(j) => (j + 1).min(n),
                            _ => u.plan.pulls.len().min(n),
                        },
                        // (a latched response failure, or a refused pull: all earlier pulls were made)
                        _ => u.plan.pulls.len().min(n),
                    }
                    .min(p);
                    if read < n || p != usize::MAX {
                        UnitEnd::FailByHandler(ExpErr::Either(Box::new(e), Box::new(ExpErr::CommandClass)))
                    } else {
                        UnitEnd::FailByHandler(e)
                    }
                }
                end => end,
            };
            // a query that wrote nothing: whether it still gets a unit separator is not fixed
            if u.query && !it.lazy && it.out.len() == len_before + (len_before > 0) as usize && it.calls.len() + it.executed.len() > entered_before {
                alt_wanted |= V_LAZY;
            }
            // fixed-capacity buffer: does everything this unit wrote fit?
            if let Some(cap) = cap {
                if it.out.len() > cap {
                    // the unit separator is pushed before the handler is entered
                    let sep_fits = !(u.query && len_before > 0 && len_before + 1 > cap);
                    if !sep_fits {
                        alt_wanted |= V_LAZY | V_DEFER;
                    }
                    if !sep_fits && !it.lazy && !defer {
                        // response_unit() fails before the handler is entered: the unit has no
                        // effect and its handler is not invoked
                        if let Some(last) = it.calls.last() {
                            if last.unit == i {
                                it.calls.pop();
                            }
                        }
                        it.st = st_before_unit;
                        it.executed.truncate(executed_before);
                        it.unit_text[i] = None;
                        result = Err(ExpErr::Code(-225));
                        fail_unit = Some(i);
                        break;
                    }
                    // (alternative framing: the handler was entered and the failure showed in its
                    // first write)
                    // a read-and-clear query whose answer was not delivered: consumed or not
                    let read_and_clear = matches!(
                        h,
                        H::Contrib(Contrib::Esr) | H::Contrib(Contrib::StatReg(_, RegCmd::Event)) | H::Contrib(Contrib::SystErrNext) | H::Contrib(Contrib::SystErrAll)
                    ) && u.query;
                    if read_and_clear {
                        alt_wanted |= V_KEEP;
                        if keep {
                            if matches!(h, H::Contrib(Contrib::SystErrAll)) {
                                all_read_from = Some(st_before_unit.queue.items.clone());
                            }
                            it.st = st_before_unit.clone();
                        }
                    }
                    match &end {
                        // the handler returned its own error instead of the latched one
                        UnitEnd::FailByHandler(e) => {
                            result = Err(e.clone());
                        }
                        _ => {
                            result = Err(ExpErr::Code(-225));
                        }
                    }
                    fail_unit = Some(i);
                    break;
                }
            }
            if !it.structural {
                break;
            }
            match end {
                UnitEnd::Fail(e) | UnitEnd::FailByHandler(e) => {
                    result = Err(e);
                    fail_unit = Some(i);
                    break;
                }
                UnitEnd::Ok => {}
            }
        }
    }
    let mut out = None;
    if it.structural && result.is_ok() {
        // terminator
        let wrote = it.out.len() > start_len;
        let queried = msg.units.iter().any(|u| u.query);
        if queried && !wrote && it.out.len() == start_len {
            // no query wrote anything: a terminator all the same?
            alt_wanted |= V_QEND;
        }
        let end = if variant & V_NOEND != 0 { wrote } else { !it.out.is_empty() };
        if end || (variant & V_QEND != 0 && queried) {
            it.out.push(b'\n');
        }
        if let Some(cap) = cap {
            if it.out.len() > cap {
                result = Err(ExpErr::Code(-225));
                fail_unit = None;
            }
        }
        if result.is_ok() && it.out_known {
            out = Some(it.out.clone());
        }
    }
    Pred {
        structural: it.structural,
        calls: it.calls,
        result,
        fail_unit,
        out,
        unit_text: it.unit_text,
        state: it.st,
        state_known: it.state_known,
        executed: it.executed,
        resolved_units,
        why_not_structural: it.why,
        alts: Vec::new(),
        variant,
        all_read_from,
        alt_wanted: alt_wanted | it.wants | if it.opc_seen { V_OPCQ } else { 0 },
    }
}
