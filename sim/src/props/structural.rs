//! Comparison of an observed message execution with the interpreter's prediction, split by
//! aspect so that each property compares exactly what its statement fixes.

use crate::device::CallObs;
use crate::exec::SendObs;
use crate::model::*;
use crate::types::*;

pub struct Diff {
    pub sig: String,
    pub detail: String,
}

fn d(sig: impl Into<String>, detail: impl Into<String>) -> Option<Diff> {
    Some(Diff {
        sig: sig.into(),
        detail: detail.into(),
    })
}

pub fn fmt_calls(calls: &[CallObs]) -> String {
    let v: Vec<String> = calls
        .iter()
        .map(|c| format!("h{}{}", c.h, if c.query { "?" } else { "" }))
        .collect();
    format!("[{}]", v.join(", "))
}

pub fn fmt_exp_calls(calls: &[ExpCall]) -> String {
    let v: Vec<String> = calls
        .iter()
        .map(|c| format!("h{}{}{}", c.h, if c.query { "?" } else { "" }, if c.optional { "(opt)" } else { "" }))
        .collect();
    format!("[{}]", v.join(", "))
}

/// Which handlers ran, in which form and order (C02 / C05).
pub fn cmp_dispatch(pred: &Pred, o: &SendObs) -> Option<Diff> {
    let exp = &pred.calls;
    let got = &o.calls;
    let n_required = exp.iter().filter(|c| !c.optional).count();
    for (k, g) in got.iter().enumerate() {
        match exp.get(k) {
            None => {
                let sig = if pred.result.is_err() {
                    "handler_ran_after_failing_unit"
                } else {
                    "extra_handler_invocation"
                };
                return d(
                    sig,
                    format!("handlers invoked {} but expected {}", fmt_calls(got), fmt_exp_calls(exp)),
                );
            }
            Some(e) => {
                if e.h != g.h {
                    return d(
                        "wrong_handler",
                        format!(
                            "invocation {} went to handler h{} but the header designates h{} (invoked {}, expected {})",
                            k,
                            g.h,
                            e.h,
                            fmt_calls(got),
                            fmt_exp_calls(exp)
                        ),
                    );
                }
                if e.query != g.query {
                    return d(
                        if e.query { "query_dispatched_as_event" } else { "event_dispatched_as_query" },
                        format!("invocation {} of h{}: form query={} but the header says query={}", k, g.h, g.query, e.query),
                    );
                }
            }
        }
    }
    if got.len() < n_required {
        let missing = &exp[got.len()];
        let sig = if pred.result.is_ok() || pred.fail_unit.map(|f| missing.unit < f).unwrap_or(false) {
            "designated_handler_not_invoked"
        } else {
            "failing_unit_handler_not_invoked"
        };
        return d(
            sig,
            format!(
                "handlers invoked {} but expected {} (unit {} -> h{} missing)",
                fmt_calls(got),
                fmt_exp_calls(exp),
                missing.unit,
                missing.h
            ),
        );
    }
    None
}

/// What each handler was offered (C06 / C04).
pub fn cmp_pulls(pred: &Pred, o: &SendObs, msg: &Msg) -> Option<Diff> {
    for (k, e) in pred.calls.iter().enumerate() {
        let g = match o.calls.get(k) {
            Some(g) => g,
            None => return None, // judged by cmp_dispatch
        };
        if g.h != e.h {
            return None;
        }
        let unit = &msg.units[e.unit];
        for (j, ep) in e.pulls.iter().enumerate() {
            let gp = match g.pulls.get(j) {
                Some(x) => x,
                None => {
                    return d(
                        "handler_stopped_early",
                        format!("unit {}: handler made {} pulls, plan has {}", e.unit, g.pulls.len(), e.pulls.len()),
                    )
                }
            };
            match (ep, gp) {
                (ExpPull::Any, _) => {}
                (ExpPull::Tok(t), PullObs::Tok(u)) => {
                    if t != u {
                        // classify
                        let later_unit = msg
                            .units
                            .iter()
                            .enumerate()
                            .filter(|(i, _)| *i != e.unit)
                            .any(|(_, un)| un.params.iter().any(|p| crate::msg::expected_tok(p).as_ref() == Some(u)));
                        let same_unit_other_pos = unit.params.iter().any(|p| crate::msg::expected_tok(p).as_ref() == Some(u));
                        let sig = if later_unit {
                            "element_of_another_unit_delivered".to_string()
                        } else if same_unit_other_pos {
                            "elements_out_of_order".to_string()
                        } else if std::mem::discriminant(t) != std::mem::discriminant(u) {
                            format!("element_type_changed_{}_to_{}", tok_kind(t), tok_kind(u))
                        } else {
                            format!("element_content_changed_{}", tok_kind(t))
                        };
                        return d(sig, format!("unit {} pull {}: handler received {:?}, the message carries {:?}", e.unit, j, u, t));
                    }
                }
                (ExpPull::Tok(t), PullObs::Absent) => {
                    return d(
                        "supplied_element_reported_absent",
                        format!("unit {} pull {}: optional pull returned nothing, the message carries {:?}", e.unit, j, t),
                    )
                }
                (ExpPull::Tok(t), PullObs::Err(x)) => {
                    return d(
                        format!("supplied_element_rejected_{}", tok_kind(t)),
                        format!("unit {} pull {}: pull failed with {:?}, the message carries {:?}", e.unit, j, x, t),
                    )
                }
                (ExpPull::Absent, PullObs::Absent) => {}
                (ExpPull::Absent, PullObs::Tok(u)) => {
                    let foreign = msg
                        .units
                        .iter()
                        .enumerate()
                        .filter(|(i, _)| *i != e.unit)
                        .any(|(_, un)| un.params.iter().any(|p| crate::msg::expected_tok(p).as_ref() == Some(u)));
                    return d(
                        if foreign { "element_of_another_unit_delivered" } else { "phantom_element_delivered" },
                        format!("unit {} pull {}: optional pull beyond the unit's {} elements returned {:?}", e.unit, j, unit.params.len(), u),
                    );
                }
                (ExpPull::Absent, PullObs::Err(x)) => {
                    return d(
                        "optional_pull_beyond_end_failed",
                        format!("unit {} pull {}: optional pull beyond the unit's elements failed with {:?}", e.unit, j, x),
                    )
                }
                (ExpPull::Err(x), PullObs::Err(y)) => {
                    if !x.accepts(y) {
                        return d(
                            format!("pull_error_not_{}", short_exp(x)),
                            format!("unit {} pull {}: failed with {:?}, expected {}", e.unit, j, y, x.describe()),
                        );
                    }
                }
                (ExpPull::Err(x), PullObs::Tok(u)) => {
                    let foreign = msg
                        .units
                        .iter()
                        .enumerate()
                        .filter(|(i, _)| *i != e.unit)
                        .any(|(_, un)| un.params.iter().any(|p| crate::msg::expected_tok(p).as_ref() == Some(u)));
                    let sig = if foreign {
                        "element_of_another_unit_delivered".to_string()
                    } else if unit.pfault.is_some() {
                        format!("ill_formed_element_accepted_{}", unit.pfault.as_ref().unwrap().kind)
                    } else {
                        format!("pull_succeeded_instead_of_{}", short_exp(x))
                    };
                    return d(sig, format!("unit {} pull {}: returned {:?}, expected {}", e.unit, j, u, x.describe()));
                }
                (ExpPull::Err(x), PullObs::Absent) => {
                    return d(
                        format!("pull_absent_instead_of_{}", short_exp(x)),
                        format!("unit {} pull {}: returned nothing, expected {}", e.unit, j, x.describe()),
                    )
                }
                (_, PullObs::Value(_)) => {}
                (ExpPull::Absent, _) | (ExpPull::Tok(_), _) => {}
            }
        }
        if e.pulls_exact && g.pulls.len() > e.pulls.len() {
            return d(
                "handler_continued_after_failed_pull",
                format!("unit {}: {} pulls logged, expected {}", e.unit, g.pulls.len(), e.pulls.len()),
            );
        }
    }
    None
}

pub fn tok_kind(t: &Tok) -> &'static str {
    match t {
        Tok::Chr(_) => "chardata",
        Tok::Dec(_) => "decimal",
        Tok::DecSuf(..) => "decimal_suffix",
        Tok::NonDec(_) => "nondecimal",
        Tok::Str(_) => "string",
        Tok::Blk(_) => "block",
        Tok::Expr(_) => "expression",
        Tok::Other(_) => "non_data",
    }
}

pub fn short_exp(e: &ExpErr) -> String {
    match e {
        ExpErr::Exact(x) => format!("injected_{}", x.code),
        ExpErr::Code(c) => format!("{}", c).replace('-', "m"),
        ExpErr::CommandClass => "command_error".into(),
        ExpErr::ExecClass => "execution_error".into(),
        ExpErr::Either(a, b) => format!("{}_or_{}", short_exp(a), short_exp(b)),
    }
}

/// The returned result against the prediction.
pub fn cmp_result(pred: &Pred, o: &SendObs) -> Option<Diff> {
    match (&pred.result, &o.result) {
        (Ok(()), Ok(())) => None,
        (Ok(()), Err(e)) => d(
            format!("well_formed_message_rejected_{}", e.code).replace('-', "m"),
            format!("returned {:?}, expected Ok", e),
        ),
        (Err(x), Ok(())) => d(
            format!("succeeded_instead_of_{}", short_exp(x)),
            format!("returned Ok, expected {} at unit {:?}", x.describe(), pred.fail_unit),
        ),
        (Err(x), Err(e)) => {
            if x.accepts(e) {
                None
            } else {
                d(
                    format!("error_{}_instead_of_{}", e.code, short_exp(x)).replace('-', "m"),
                    format!("returned {:?}, expected {} at unit {:?}", e, x.describe(), pred.fail_unit),
                )
            }
        }
    }
}

/// Response framing (C10): byte-exact buffer on success.
pub fn cmp_out(pred: &Pred, o: &SendObs) -> Option<Diff> {
    if o.result.is_err() || pred.result.is_err() {
        return None;
    }
    let exp = pred.out.as_ref()?;
    if exp == &o.out {
        return None;
    }
    let got = &o.out;
    let sig = if exp.is_empty() {
        "output_from_message_without_queries"
    } else if got.is_empty() {
        "no_output_from_query"
    } else if exp.ends_with(b"\n") && !got.ends_with(b"\n") && &exp[..exp.len() - 1] == got.as_slice() {
        "terminator_missing"
    } else if got.ends_with(b"\n\n") && &got[..got.len() - 1] == exp.as_slice() {
        "terminator_duplicated"
    } else {
        let ec = exp.iter().filter(|b| **b == b';').count();
        let gc = got.iter().filter(|b| **b == b';').count();
        let en = exp.iter().filter(|b| **b == b'\n').count();
        let gn = got.iter().filter(|b| **b == b'\n').count();
        let em = exp.iter().filter(|b| **b == b',').count();
        let gm = got.iter().filter(|b| **b == b',').count();
        if gc < ec {
            "unit_separator_missing"
        } else if gc > ec {
            "unit_separator_extra"
        } else if gn > en {
            "terminator_inside_message"
        } else if gn < en {
            "terminator_missing"
        } else if gm < em {
            "data_separator_missing"
        } else if gm > em {
            "data_separator_extra"
        } else if got.len() != exp.len() {
            "response_length_differs"
        } else {
            "response_bytes_differ"
        }
    };
    d(sig, format!("buffer {:?}, expected {:?}", B(got.clone()), B(exp.clone())))
}
