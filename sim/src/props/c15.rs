//! C15 - status event registers latch filtered condition transitions until read.
//! World: hardware actor (condition changes at arbitrary instants, also inside a message through
//! a handler side effect) interleaved with a controller issuing STATus commands, on both
//! register sets, compared with a per-bit latch model.

use crate::exec::{SendObs, World};
use crate::gen::*;
use crate::model::*;
use crate::props::c13::{advance_shadow, gen_reg_value, queue_cfg};
use crate::props::*;
use crate::rng::{mix, Rng};
use crate::runner::{Finding, Prop, Tier};
use crate::stats::Stats;
use crate::tree::gen_tree;
use crate::types::*;

pub struct C15;

pub fn fresh_shadow(cfg: &Config) -> ModelState {
    ModelState {
        esr: 0,
        ese: 0,
        sre: 0,
        oper: RegModel {
            ptr: 0xffff,
            ..Default::default()
        },
        ques: RegModel {
            ptr: 0xffff,
            ..Default::default()
        },
        queue: QueueModel::new(&cfg.queue),
        tst_code: 0,
        outq: vec![false; cfg.controllers.max(1) as usize],
        plain488: cfg.plain488,
        no_mav: cfg.no_mav,
        prefill: Vec::new(),
    }
}

/// a hardware event through one of the three public entry points
pub fn gen_hw(rng: &mut Rng, reg: Reg, cur: u16) -> HwOp {
    if rng.chance(1, 14) {
        // (bit 15 included: it is never reported and never summarised, whoever sets it)
        return HwOp {
            reg,
            value: *rng.pick(&[0xffffu16, 0x8000, 0x7fff, 0]) ^ if rng.chance(1, 3) { rng.next_u64() as u16 } else { 0 },
            op: HwKind::Enable,
        };
    }
    match rng.below(6) {
        0 => HwOp {
            reg,
            value: match rng.below(3) {
                0 => 1 << rng.below(16),
                // several bits, some of them already set
                1 => (cur & rng.next_u64() as u16) | (1 << rng.below(15)) | (1 << rng.below(15)),
                _ => rng.next_u64() as u16 & rng.next_u64() as u16,
            },
            op: HwKind::SetBits,
        },
        1 => HwOp {
            reg,
            value: match rng.below(3) {
                0 => 1 << rng.below(16),
                // several bits, some of them already clear
                1 => (cur & rng.next_u64() as u16) | (1 << rng.below(15)),
                _ => rng.next_u64() as u16 & rng.next_u64() as u16,
            },
            op: HwKind::ClearBits,
        },
        _ => HwOp {
            reg,
            value: gen_condition(rng, cur),
            op: HwKind::Set,
        },
    }
}

pub fn gen_condition(rng: &mut Rng, cur: u16) -> u16 {
    match rng.below(6) {
        0 => rng.next_u64() as u16,
        1 => cur ^ (1 << rng.below(16)),
        2 => cur ^ (1 << rng.below(16)) ^ (1 << rng.below(16)),
        3 => 0,
        4 => 0xffff,
        _ => cur ^ (rng.next_u64() as u16 & rng.next_u64() as u16),
    }
}

/// in-range 16 bit register value as NR1 or non-decimal literal
pub fn gen_u16_value(rng: &mut Rng) -> Elem {
    let v: u64 = match rng.below(6) {
        0 => 0,
        1 => 0xffff,
        2 => 0x8000,
        3 => 1 << rng.below(16),
        4 => 0x7fff,
        _ => rng.below(0x10000),
    };
    match rng.below(5) {
        0 => Elem::NonDec {
            radix: *rng.pick(&['H', 'h']),
            digits: format!("{:X}", v),
        },
        1 => Elem::NonDec {
            radix: 'Q',
            digits: format!("{:o}", v),
        },
        2 => Elem::NonDec {
            radix: 'B',
            digits: format!("{:b}", v),
        },
        3 => Elem::Dec(crate::props::c13::spell_integer(rng, v)),
        _ => Elem::Dec(format!("{}", v)),
    }
}

/// a message of 1..4 STATus units, using relative headers where possible
pub fn gen_stat_msg(rng: &mut Rng, tc: &TreeCtx, uniq: &mut u32, shadow: &ModelState, with_app_hw: bool) -> Msg {
    let n = *rng.pick(&[1usize, 1, 2, 3, 4]);
    let mut units = Vec::new();
    let mut level: Vec<usize> = Vec::new();
    let mut reg = *rng.pick(&[Reg::Oper, Reg::Ques]);
    for i in 0..n {
        if rng.chance(1, 4) {
            reg = *rng.pick(&[Reg::Oper, Reg::Ques]);
        }
        let k = rng.below(if with_app_hw { 12 } else { 11 });
        let u = match k {
            0 | 1 => contrib_unit(rng, tc, Contrib::StatReg(reg, RegCmd::Event), true, vec![], &level, i == 0),
            2 => contrib_unit(rng, tc, Contrib::StatReg(reg, RegCmd::Condition), true, vec![], &level, i == 0),
            3 | 4 | 5 => {
                let c = *rng.pick(&[RegCmd::Enable, RegCmd::Ptr, RegCmd::Ntr]);
                let v = gen_u16_value(rng);
                // now and then with a surplus parameter: the unit is refused with -108 (whether
                // the addressed register was written first is open) - no OTHER register may change
                let ps = if rng.chance(1, 12) { vec![v, gen_u16_value(rng)] } else { vec![v] };
                contrib_unit(rng, tc, Contrib::StatReg(reg, c), false, ps, &level, i == 0)
            }
            6 | 7 => {
                let c = *rng.pick(&[RegCmd::Enable, RegCmd::Ptr, RegCmd::Ntr]);
                contrib_unit(rng, tc, Contrib::StatReg(reg, c), true, vec![], &level, i == 0)
            }
            8 => contrib_unit(rng, tc, Contrib::Cls, false, vec![], &level, i == 0),
            9 => {
                // PRESet leaves the condition register unspecified: keep it last in the message
                if i + 1 == n {
                    contrib_unit(rng, tc, Contrib::StatPreset, false, vec![], &level, i == 0)
                } else {
                    contrib_unit(rng, tc, Contrib::StatReg(reg, RegCmd::Event), true, vec![], &level, i == 0)
                }
            }
            10 => contrib_unit(rng, tc, Contrib::StatReg(reg, RegCmd::Condition), true, vec![], &level, i == 0),
            _ => match pick_sim_leaf(rng, tc) {
                Some(l) => {
                    let l = l.clone();
                    let mut u = gen_app_unit(
                        rng,
                        tc,
                        &l,
                        &level,
                        i == 0,
                        uniq,
                        &UnitOpts {
                            max_params: 1,
                            ..Default::default()
                        },
                    );
                    let cur = shadow.reg_ref(reg).cond;
                    u.plan.hw = Some(HwOp {
                        reg,
                        value: gen_condition(rng, cur),
                        op: HwKind::Set,
                    });
                    u
                }
                None => contrib_unit(rng, tc, Contrib::StatReg(reg, RegCmd::Event), true, vec![], &level, i == 0),
            },
        };
        if let Some(l) = level_after(tc, &level, i == 0, u.colon, &u.path) {
            level = l;
        }
        units.push(u);
    }
    Msg {
        units,
        end: B::from(*rng.pick(&["", "", "\n"])),
    }
}

impl Prop for C15 {
    fn id(&self) -> &'static str {
        "C15"
    }
    fn level(&self) -> &'static str {
        "exploration"
    }
    fn rule(&self) -> &'static str {
        "one run = one instrument and a seeded interleaving (10-80 steps) of hardware condition updates (arbitrary 16-bit values, single and double toggles, also inside a message via a handler side effect) with controller messages of 1-4 STATus units (ENABle/PTRansition/NTRansition writes of arbitrary 16-bit values as NR1 or #H/#Q/#B, all five queries, *CLS, STATus:PRESet, relative header forms) on both register sets; after every step registers and responses are compared with a per-bit latch model. distinct_nontrivial = distinct (register, step kind, ptr/ntr filter class, transition class, event-before class) tuples"
    }
    fn assumptions(&self) -> Vec<String> {
        vec![
            "hardware events reach the library through EventRegister::set_condition (the documented entry point)".into(),
            "whether STATus:PRESet touches the condition register is not stated by the property: after PRESet the model adopts the observed condition value".into(),
            "register values written are within 0..65535 (out-of-range values belong to C07/C16)".into(),
        ]
    }
    fn runs(&self, tier: Tier) -> u64 {
        match tier {
            Tier::Quick => 300_000,
            Tier::Thorough => 1_500_000,
            Tier::Tiny => 50,
        }
    }
    fn required_probes(&self) -> Vec<String> {
        let v: Vec<&str> = vec![
            "bit_toggled_twice_between_reads",
            "both_filters_set_on_a_bit",
            "bit15_written",
            "event_latched_by_ntr",
            "event_latched_by_ptr",
            "transition_filtered_out",
            "condition_change_inside_message",
            "preset_executed",
            "cls_with_pending_event",
            "set_condition_bits_partial_overlap",
            "clear_condition_bits",
            "enable_written_by_the_device",
            "register_write_refused_for_surplus_parameter",
        ];
        v.into_iter().map(String::from).collect()
    }

    fn gen(&self, seed: u64, run: u64, tier: Tier) -> Trace {
        let mut rng = Rng::new(mix(seed, "C15", run));
        let deep = tier == Tier::Thorough && run % 16 == 15;
        let mut trng = Rng::new(mix(seed, "C15-tree", run / 64));
        let tree = gen_tree(&mut trng, true, 2, 2, 0);
        let cfg = Config {
            queue: queue_cfg(&mut rng),
            controllers: 1,
            tree,
            plain488: false,
            no_mav: false,
        };
        let mut t = base_trace("C15", seed, run, "history", cfg.clone());
        let tc = TreeCtx::new(&cfg.tree);
        let mut shadow = fresh_shadow(&cfg);
        let w_hw = *rng.pick(&[1u32, 3, 6]);
        let w_msg = *rng.pick(&[2u32, 4]);
        let nmax = if deep { 400 } else { *rng.pick(&[15usize, 40, 80]) };
        let n = rng.urange(10, nmax);
        let mut uniq = 0u32;
        for _ in 0..n {
            match rng.weighted(&[w_hw, w_msg]) {
                0 => {
                    let reg = *rng.pick(&[Reg::Oper, Reg::Ques]);
                    let op = gen_hw(&mut rng, reg, shadow.reg_ref(reg).cond);
                    let target = op.target(shadow.reg_ref(reg).cond);
                    shadow.reg(reg).set_condition(target);
                    if op.op == HwKind::Enable {
                        shadow.reg(reg).enable = op.value;
                    }
                    t.steps.push(Step::Hw(op));
                }
                _ => {
                    let msg = gen_stat_msg(&mut rng, &tc, &mut uniq, &shadow, true);
                    let s = SendStep {
                        ctl: 0,
                        fmt: FmtCfg::Vec,
                        msg,
                        corrupt: vec![],
                    };
                    advance_shadow(&mut shadow, &tc.root, &s);
                    t.steps.push(Step::Send(s));
                    if rng.chance(1, 2) {
                        t.steps.push(Step::Read { ctl: 0 });
                    }
                }
            }
        }
        t
    }

    fn check(&self, trace: &Trace, stats: &mut Stats) -> Vec<Finding> {
        let mut h = H15 {
            toggles: [[0u8; 16]; 2],
        };
        let f = drive(trace, stats, &mut h);
        if trace.run < 3 && stats.samples.is_empty() {
            let msgs: Vec<String> = trace
                .steps
                .iter()
                .take(12)
                .map(|s| match s {
                    Step::Send(x) => describe_msg(x),
                    other => format!("{:?}", other),
                })
                .collect();
            stats.samples.push(serde_json::to_string(&serde_json::json!({"history": msgs})).unwrap());
        }
        f
    }
}

struct H15 {
    /// per register, per bit: number of condition toggles since the event register was last read
    toggles: [[u8; 16]; 2],
}

pub fn reg_fields(g: &RegModel) -> [(&'static str, u16); 5] {
    [("condition", g.cond), ("event", g.event), ("enable", g.enable), ("ptr", g.ptr), ("ntr", g.ntr)]
}

pub fn snap_fields(g: &crate::exec::RegSnap) -> [(&'static str, u16); 5] {
    [("condition", g.cond), ("event", g.event), ("enable", g.enable), ("ptr", g.ptr), ("ntr", g.ntr)]
}

/// Compare one register set of the device with the model; `ctx` names what just happened.
pub fn compare_reg(
    inv: &str,
    name: &str,
    exp: &RegModel,
    got: &crate::exec::RegSnap,
    ctx: &str,
    i: usize,
    detail: &str,
    out: &mut Vec<Finding>,
) {
    let e = reg_fields(exp);
    let g = snap_fields(got);
    for k in 0..5 {
        if e[k].0 == "condition" && exp.cond_unknown {
            continue;
        }
        // (bit 15 is never reported; what the raw field holds there is not observable through
        // the commands)
        if e[k].1 & 0x7fff != g[k].1 & 0x7fff {
            out.push(Finding::new(
                inv,
                format!("{}_register_wrong_after_{}", e[k].0, ctx),
                i,
                format!("{} {} register is {:#06x}, expected {:#06x}; {}", name, e[k].0, g[k].1, e[k].1, detail),
            ));
            return;
        }
    }
}

impl StepHandler for H15 {
    fn on_hw(&mut self, world: &World, before: &ModelState, model: &ModelState, i: usize, op: &HwOp, stats: &mut Stats, out: &mut Vec<Finding>) {
        let snap = world.snap();
        let (exp, got, name, ri) = match op.reg {
            Reg::Oper => (&model.oper, &snap.oper, "OPERation", 0),
            Reg::Ques => (&model.ques, &snap.ques, "QUEStionable", 1),
        };
        // probes (model side)
        stats.state(&[ri as u8, b'H', (exp.ptr != 0) as u8, (exp.ntr != 0) as u8, (exp.event != 0) as u8]);
        if exp.ptr & exp.ntr != 0 {
            stats.probe("both_filters_set_on_a_bit");
        }
        let b = before.reg_ref(op.reg);
        match op.op {
            HwKind::SetBits => {
                if b.cond & op.value != 0 && !b.cond & op.value != 0 {
                    stats.probe("set_condition_bits_partial_overlap");
                }
            }
            HwKind::ClearBits => stats.probe("clear_condition_bits"),
            HwKind::Set => {}
            HwKind::Enable => stats.probe("enable_written_by_the_device"),
        }
        let target = op.target(b.cond);
        let op = &HwOp { reg: op.reg, value: target, op: HwKind::Set };
        if b.event == 0 {
            self.toggles[ri] = [0; 16];
        }
        for bit in 0..16 {
            let m = 1u16 << bit;
            if (b.cond ^ op.value) & m != 0 {
                let rising = op.value & m != 0;
                if rising && b.ptr & m != 0 {
                    stats.probe("event_latched_by_ptr");
                } else if !rising && b.ntr & m != 0 {
                    stats.probe("event_latched_by_ntr");
                } else {
                    stats.probe("transition_filtered_out");
                }
                self.toggles[ri][bit] = self.toggles[ri][bit].saturating_add(1);
                if self.toggles[ri][bit] >= 2 && b.event & m != 0 {
                    stats.probe("bit_toggled_twice_between_reads");
                }
            }
        }
        compare_reg(
            "C15.latch",
            name,
            exp,
            got,
            "condition_change",
            i,
            &format!("after the hardware set condition to {:#06x}", op.value),
            out,
        );
    }

    fn on_send(&mut self, world: &mut World, before: &ModelState, i: usize, s: &SendStep, o: &SendObs, stats: &mut Stats, out: &mut Vec<Finding>) {
        let pred = super::predict_seen(world, before, s, o, Reading::Condition);
        if !pred.structural {
            return;
        }
        let consistent = match (&pred.result, &o.result) {
            (Ok(()), Ok(())) => true,
            (Err(x), Err(e)) => x.accepts(e),
            _ => false,
        };
        if !consistent {
            if let Some(cmds) = pure_contrib(world, s) {
                if cmds.iter().all(|c| matches!(c, Contrib::StatReg(..) | Contrib::StatPreset | Contrib::Cls)) {
                    let code = match &o.result {
                        Ok(()) => "ok".to_string(),
                        Err(e) => format!("{}", e.code).replace('-', "m"),
                    };
                    out.push(Finding::new(
                        "C15.command_result",
                        format!("status_message_returned_{}", code),
                        i,
                        format!("{} returned {:?}, expected {:?}", describe_msg(s), o.result, pred.result.as_ref().map_err(|e| e.describe())),
                    ));
                    return;
                }
            }
            stats.bump("skipped_result_not_as_predicted");
            return;
        }
        // probes
        for u in &s.msg.units {
            if let Some(hw) = &u.plan.hw {
                stats.probe("condition_change_inside_message");
                stats.fault("F9_condition_change_inside_message");
                let _ = hw;
            }
        }
        let mut ctx = String::from("message");
        if s.msg.units.iter().zip(0..).any(|(u, ui)| u.params.len() >= 2 && pred.executed.iter().any(|(x, c, q)| *x == ui && !*q && matches!(c, Contrib::StatReg(..)))) {
            stats.probe("register_write_refused_for_surplus_parameter");
        }
        for (_, c, q) in &pred.executed {
            match c {
                Contrib::StatPreset => {
                    stats.probe("preset_executed");
                    ctx = "preset".into();
                }
                Contrib::Cls => {
                    if before.oper.event != 0 || before.ques.event != 0 {
                        stats.probe("cls_with_pending_event");
                    }
                    ctx = "cls".into();
                }
                Contrib::StatReg(r, k) => {
                    let g = before.reg_ref(*r);
                    stats.state(&[*r as u8, *k as u8, *q as u8, (g.event != 0) as u8, (g.ptr != 0xffff) as u8, (g.ntr != 0) as u8]);
                    ctx = format!("{:?}_{}", k, if *q { "query" } else { "write" });
                    if !*q {
                        if let Some(Elem::Dec(d)) = s.msg.units.iter().find(|u| !u.params.is_empty()).and_then(|u| u.params.first()) {
                            if d.parse::<u32>().map(|v| v & 0x8000 != 0).unwrap_or(false) {
                                stats.probe("bit15_written");
                            }
                        }
                    }
                }
                _ => {}
            }
        }
        let after = world.snap();
        let detail = format!("after {} (result {:?})", describe_msg(s), o.result);
        if o.result.is_ok() {
            if let Some(exp) = &pred.out {
                if exp != &o.out {
                    // attribute to the first differing unit
                    let sig = first_diff_unit(&pred, exp, &o.out);
                    out.push(Finding::new(
                        "C15.response",
                        sig,
                        i,
                        format!("message {} answered {:?}, expected {:?}", describe_msg(s), B(o.out.clone()), B(exp.clone())),
                    ));
                }
            }
            // every reported value has bit 15 clear
            for part in o.out.split(|b| *b == b';' || *b == b'\n') {
                if let Ok(t) = std::str::from_utf8(part) {
                    if let Ok(v) = t.parse::<u32>() {
                        let only_status_queries = pure_contrib(world, s).map(|c| !c.is_empty() && c.iter().all(|x| matches!(x, Contrib::StatReg(..)))).unwrap_or(false);
                        if v > 32767 && only_status_queries {
                            out.push(Finding::new("C15.bit15", "reported_value_has_bit15_set", i, format!("{} answered {}", describe_msg(s), v)));
                        }
                    }
                }
            }
        }
        compare_reg("C15.register_state", "OPERation", &pred.state.oper, &after.oper, &ctx, i, &detail, out);
        compare_reg("C15.register_state", "QUEStionable", &pred.state.ques, &after.ques, &ctx, i, &detail, out);
    }
}

/// first response unit whose text differs: (command behind it, expected text, observed text)
pub fn diff_unit(pred: &Pred, expected: &[u8], got: &[u8]) -> Option<(Option<Contrib>, Vec<u8>, Vec<u8>)> {
    let exp_units: Vec<&[u8]> = expected.strip_suffix(b"\n").unwrap_or(expected).split(|b| *b == b';').collect();
    let got_units: Vec<&[u8]> = got.strip_suffix(b"\n").unwrap_or(got).split(|b| *b == b';').collect();
    let queries: Vec<Option<Contrib>> = pred
        .unit_text
        .iter()
        .enumerate()
        .filter(|(_, t)| t.is_some())
        .map(|(i, _)| pred.executed.iter().find(|(u, _, _)| *u == i).map(|(_, c, _)| *c))
        .collect();
    if exp_units.len() == got_units.len() && exp_units.len() == queries.len() {
        for k in 0..exp_units.len() {
            if exp_units[k] != got_units[k] {
                return Some((queries[k], exp_units[k].to_vec(), got_units[k].to_vec()));
            }
        }
    }
    None
}

pub fn first_diff_unit(pred: &Pred, expected: &[u8], got: &[u8]) -> String {
    match diff_unit(pred, expected, got) {
        Some((Some(Contrib::StatReg(_, c)), _, _)) => format!("wrong_answer_{:?}", c),
        Some((Some(c), _, _)) => format!("wrong_answer_{:?}", c),
        Some((None, _, _)) => "wrong_answer_app_query".to_string(),
        None => "response_differs".to_string(),
    }
}
