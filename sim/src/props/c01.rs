//! C01 - arbitrary input is processed totally: no panic, overflow, hang or internal error.
//! The simulator's contribution: every message reaches the instrument through a transport that
//! damages it in flight, and handlers pull parameters through every typed conversion and drive
//! the list iterators. Only universal invariants are checked (they hold for any bytes).

use crate::exec::{SendObs, World};
use crate::gen::*;
use crate::model::*;
use crate::msg::*;
use crate::props::*;
use crate::rng::{mix, Rng};
use crate::runner::{Finding, Prop, Tier};
use crate::stats::Stats;
use crate::tree::gen_tree;
use crate::types::*;

pub struct C01;

const BOUND_LITERALS: &[&str] = &[
    "127", "128", "-128", "-129", "255", "256", "32767", "32768", "-32768", "-32769", "65535", "65536", "2147483647", "2147483648",
    "-2147483648", "-2147483649", "4294967295", "4294967296", "9223372036854775807", "9223372036854775808", "-9223372036854775808",
    "-9223372036854775809", "18446744073709551615", "18446744073709551616", "9223372036854775807.0", "18446744073709551615.0",
    "-9223372036854775808.0", "9.3e18", "1.9e19", "-9.3e18", "255.4", "255.5", "-0.4", "-0.5", "-128.4", "-128.6", "127.5", "65535.5", "4294967295.5",
    "2147483647.5", "0.0", "-0", ".0", "0e0", "1e-320", "1e40", "1e400", "-1e400", "4503599627370497.0", "1e19", "1.8446744073709552e19",
    "9.223372036854775807e18", "340282350000000000000000000000000000000", "1e38", "3.5e38", "99999999999999999999999999999",
    "0.49999999999999994", "32767.5", "-32768.5", "8388608.5", "16777217",
];

const LIST_EXPRS: &[&str] = &[
    "@1,2,3:5", "@1!2!3", "@1!!2", "@1!!", "@!", "@1!", "@", "@1:2:3", "@1!2:3", "@\"path\"", "@'p''q'", "@\"open", "@1,,2", "@,1", "@1,", "@-1:+2", "@1:",
    "@:", "@+", "@1!2!3:4!5!6", "@1!2,3!4!5", "@9999999999999999999999", "@1!9223372036854775808", "@a", "@1 2", "@\"a\"\"b\",1", "@\"x\"y",
    "1,2,3:5", "-1.5e3:+2", "1-2", "1,,2", ",1", "1,", "1:2:3", "+", "-", ".", "1e", "1:", ":1", "1.5E+", "1 ,2", "a", "", "1,2:", "1e400,2", "0.0:0.0",
    "1!2", "@1e5", "@1.5", "@-", "@+!-", "@1!+", "@--1", "@1!-!2",
];

fn c01_elem(rng: &mut Rng, uniq: &mut u32) -> Elem {
    match rng.below(10) {
        0 | 1 => Elem::Dec(rng.pick(BOUND_LITERALS).to_string()),
        2 | 3 => Elem::Expr(B::from(*rng.pick(LIST_EXPRS))),
        4 => {
            // mutated list expression
            let mut b: Vec<u8> = rng.pick(LIST_EXPRS).as_bytes().to_vec();
            if !b.is_empty() {
                let p = rng.usize_below(b.len());
                b[p] = *rng.pick(&[b'!', b':', b',', b'@', b'1', b'-', b'+', b'"', b'.', b'e', b' ']);
            }
            b.retain(|c| !matches!(*c, b'(' | b')' | b';' | b'\''));
            Elem::Expr(B(b))
        }
        5 => Elem::DecSuf {
            num: rng.pick(BOUND_LITERALS).to_string(),
            ws: B::from(*rng.pick(&["", " "])),
            suf: rng
                .pick(&["V", "MV", "KV", "VPK", "VPP", "VRMS", "DBV", "DBMV", "DB", "S", "MS", "MIN", "HZ", "MHZ", "PCT", "PPM", "PK", "PP", "RMS", "K", "XYZ"])
                .to_string(),
        },
        6 => Elem::Chr(
            rng.pick(&[
                "MAX", "MIN", "MAXimum", "MINIMUM", "DEF", "DEFault", "UP", "DOWN", "INF", "NINF", "NAN", "ON", "OFF", "ONCE", "BIN", "REAL", "ASCii", "CHAN2", "CHANNEL",
                "ascii1", "maxi",
            ])
            .to_string(),
        ),
        7 => Elem::Blk {
            payload: B(vec![0xff, 0xfe, b'a', 0x80]),
            pad: 0,
        },
        8 => {
            // over-long tokens (length counters): character data, suffix, digits, string
            let n = *rng.pick(&[13usize, 14, 100, 255, 256, 257, 300, 1000]);
            match rng.below(5) {
                0 => Elem::Raw(B(vec![b'A'; n])),
                1 => {
                    let mut v = b"1 ".to_vec();
                    v.extend(std::iter::repeat(b'V').take(n));
                    Elem::Raw(B(v))
                }
                2 => Elem::Raw(B(vec![b'7'; n])),
                3 => {
                    let mut v = b"1E".to_vec();
                    v.extend(std::iter::repeat(b'9').take(n));
                    Elem::Raw(B(v))
                }
                _ => Elem::Str {
                    q: '"',
                    inner: B(vec![b'x'; n]),
                },
            }
        }
        _ => gen_elem(rng, uniq, false),
    }
}

const INT_TYPES: &[PullTy] = &[
    PullTy::I64,
    PullTy::U64,
    PullTy::Isize,
    PullTy::Usize,
    PullTy::I32,
    PullTy::U32,
    PullTy::I16,
    PullTy::U16,
    PullTy::I8,
    PullTy::U8,
];

/// The bounded, targeted slice executed under Miri (and as smoke test): every integer target
/// type x every boundary literal (the float fallback ends in `to_int_unchecked`), every list
/// expression through both list iterators, and a few general hostile messages.
fn targeted(seed: u64, run: u64) -> Trace {
    let cfg = Config {
        queue: QueueCfg::Array { cap: 2 },
        controllers: 1,
        tree: TreeDesc {
            mandated: false,
            app: vec![
                TNode::Leaf {
                    name: "CONVert".into(),
                    default: false,
                    h: 0,
                },
                TNode::Branch {
                    name: "LIST".into(),
                    default: false,
                    sub: vec![TNode::Leaf {
                        name: "ITERate".into(),
                        default: true,
                        h: 1,
                    }],
                },
            ],
            fixed: None,
        },
        plain488: false,
        no_mav: false,
    };
    let mut t = base_trace("C01", seed, run, "targeted", cfg.clone());
    let n_int = (INT_TYPES.len() * BOUND_LITERALS.len()) as u64;
    let n_list = (2 * LIST_EXPRS.len()) as u64;
    let msg = if run < n_int {
        let ty = INT_TYPES[(run as usize) / BOUND_LITERALS.len()];
        let lit = BOUND_LITERALS[(run as usize) % BOUND_LITERALS.len()];
        Msg {
            units: vec![Unit {
                path: vec!["CONV".into()],
                hsep: B::from(" "),
                params: vec![Elem::Dec(lit.to_string())],
                plan: Plan {
                    pulls: vec![Pull { req: true, ty }],
                    ..Default::default()
                },
                ..Default::default()
            }],
            end: B::new(),
        }
    } else if run < n_int + n_list {
        let k = (run - n_int) as usize;
        let ty = if k % 2 == 0 { PullTy::ChanList } else { PullTy::NumList };
        Msg {
            units: vec![Unit {
                path: vec!["LIST".into()],
                query: true,
                hsep: B::from(" "),
                params: vec![Elem::Expr(B::from(LIST_EXPRS[k / 2]))],
                plan: Plan {
                    pulls: vec![Pull { req: true, ty }],
                    data: vec![Datum::U8(1)],
                    ..Default::default()
                },
                ..Default::default()
            }],
            end: B::from("\n"),
        }
    } else {
        let mut rng = Rng::new(mix(seed, "C01-targeted", run));
        let tc = TreeCtx::new(&cfg.tree);
        let mut uniq = 0u32;
        let m = hostile_msg(&mut rng, &tc, &mut uniq);
        let bytes = render(&m);
        let corrupt = if rng.chance(1, 2) { gen_corruption(&mut rng, &bytes, 1, None) } else { vec![] };
        t.steps.push(Step::Send(SendStep {
            ctl: 0,
            fmt: FmtCfg::Array { cap: 64 },
            msg: m,
            corrupt,
        }));
        return t;
    };
    t.steps.push(Step::Send(SendStep {
        ctl: 0,
        fmt: FmtCfg::Vec,
        msg,
        corrupt: vec![],
    }));
    t
}

/// grammar-generated multi-unit message whose handlers pull through typed conversions
pub fn hostile_msg(rng: &mut Rng, tc: &TreeCtx, uniq: &mut u32) -> Msg {
    let k = *rng.pick(&[1usize, 1, 2, 3, 5, 8]);
    let k = rng.urange(1, k);
    let mut units = Vec::new();
    let mut level: Vec<usize> = Vec::new();
    for i in 0..k {
        let leaf = pick_sim_leaf(rng, &tc).unwrap().clone();
        let (colon, mut path) = spell_header(rng, tc, &leaf, &level, i == 0, 50);
        if rng.chance(1, 40) {
            let n = *rng.pick(&[13usize, 100, 255, 256, 300]);
            let k = rng.usize_below(path.len());
            path[k] = "M".repeat(n);
        } else if rng.chance(1, 30) {
            // numeric header suffix far beyond anything defined
            let k = rng.usize_below(path.len());
            let (alpha, _) = crate::tree::split_suffix(&path[k]);
            let digits = *rng.pick(&["256", "65535", "65536", "70000", "4294967296", "99999999", "18446744073709551616"]);
            path[k] = format!("{}{}", alpha, digits);
        }
        let np = rng.usize_below(7);
        let params: Vec<Elem> = (0..np).map(|_| c01_elem(rng, uniq)).collect();
        let psep: Vec<B> = (1..np).map(|_| gen_psep(rng)).collect();
        let m = rng.usize_below(np + 3);
        let pulls: Vec<Pull> = (0..m)
            .map(|_| Pull {
                req: rng.chance(1, 2),
                ty: if rng.chance(1, 8) { PullTy::Tok } else { *rng.pick(ALL_PULL_TYPES) },
            })
            .collect();
        let query = rng.chance(1, 3);
        let mut plan = Plan {
            pulls,
            ..Default::default()
        };
        if rng.chance(1, 10) {
            // the error path (hook -> push_error -> class bit) with every kind of error number
            plan.fail = Some(PlanFail {
                err: gen_err_spec(rng),
                phase: *rng.pick(&[Phase::Before, Phase::AfterPulls]),
            });
        }
        if query {
            let (hdr, data) = gen_response_plan(rng, uniq, 2);
            plan.hdr = hdr;
            plan.data = data;
        }
        let u = Unit {
            lead: if i > 0 { gen_ws(rng, true) } else { B::new() },
            colon,
            path,
            query,
            hfault: None,
            hsep: if np > 0 { gen_ws(rng, false) } else { gen_ws(rng, true) },
            params,
            psep,
            tail: if np > 0 { gen_ws(rng, true) } else { B::new() },
            pfault: None,
            plan,
        };
        if let Some(l) = level_after(tc, &level, i == 0, u.colon, &u.path) {
            level = l;
        }
        units.push(u);
    }
    Msg {
        units,
        end: B::from(*rng.pick(&["", "\n", " ", ";", "\r\n"])),
    }
}

impl Prop for C01 {
    fn id(&self) -> &'static str {
        "C01"
    }
    fn level(&self) -> &'static str {
        "exploration"
    }
    fn rule(&self) -> &'static str {
        "one run = one random tree (depth <= 4, default nodes, suffixed siblings) and 1-6 messages: grammar-generated multi-unit messages (all seven data types, numeric literals at every integer type's bounds, channel-list / numeric-list expressions incl. empty dimensions) delivered untouched (20 %), damaged in flight by 1-3 corruptions - truncate at any byte (EOF mid-message), bit flip, delete, insert, replace, biased to quotes, '#', length digits, exponents and unit boundaries (50 %), spliced with the next message because the terminator was lost (20 %), or replaced by class-alphabet noise (10 %); handlers pull 0..n+2 parameters through all 29 conversions (10 integer types, floats, bool, bytes, str, block, character, expression, numeric list, channel list incl. tuple conversions, uom quantities, amplitude, decibel, numeric_value, derived enum, Auto). Checked per message: no panic (debug-assert+overflow-check profile and release), no -300 'Internal parser error', no non-data token handed to a handler, lexer progress, error-hook discipline, termination (watchdog). distinct_nontrivial = distinct (corruption kinds, result code, conversion kinds requested, panic?) tuples"
    }
    fn assumptions(&self) -> Vec<String> {
        vec![
            "decides only traffic the simulated controllers + transport can produce (grammar neighbourhood), not all byte strings; the repository's cargo-fuzz targets remain the tool for raw-byte coverage".into(),
            "undefined behaviour in the unsafe float->int cast is only visible to the Miri pass of the thorough tier (tools/extra_C01.sh)".into(),
            "a process abort (stack overflow, allocation failure) would terminate the check with a non-zero status and is reported as a harness failure, not minimised".into(),
        ]
    }
    fn runs(&self, tier: Tier) -> u64 {
        match tier {
            Tier::Quick => 600_000,
            Tier::Thorough => 6_000_000,
            Tier::Tiny => (INT_TYPES.len() * BOUND_LITERALS.len() + 2 * LIST_EXPRS.len() + 24) as u64,
        }
    }
    fn required_probes(&self) -> Vec<String> {
        let v: Vec<&str> = vec![
            "truncated_definite_block",
            "unterminated_string",
            "empty_channel_dimension",
            "mnemonic_13_or_more",
            "non_ascii_byte",
            "hash_at_end",
            "integer_bound_via_float_path",
            "splice",
            "garbage",
            "typed_pull_conversion_error",
            "list_iterated",
            "token_of_256_or_more_characters",
        ];
        v.into_iter().map(String::from).collect()
    }

    fn gen(&self, seed: u64, run: u64, tier: Tier) -> Trace {
        if tier == Tier::Tiny {
            return targeted(seed, run);
        }
        let mut rng = Rng::new(mix(seed, "C01", run));
        let mut trng = Rng::new(mix(seed, "C01-tree", run / 64));
        let depth = *trng.pick(&[2usize, 3, 4]);
        let mandated = trng.chance(1, 5);
        let tree = gen_tree(&mut trng, mandated, depth, 3, 2);
        let cfg = Config {
            queue: if rng.chance(1, 2) {
                QueueCfg::Vec
            } else {
                QueueCfg::Array { cap: *rng.pick(&[1usize, 4, 16]) }
            },
            controllers: 1,
            tree,
            plain488: false,
            no_mav: false,
        };
        let mut t = base_trace("C01", seed, run, "hostile", cfg.clone());
        let tc = TreeCtx::new(&cfg.tree);
        if tc.sim_leaves.is_empty() {
            return t;
        }
        let nmsg = rng.urange(1, 6);
        let mut uniq = 0u32;
        for _ in 0..nmsg {
            let msg = hostile_msg(&mut rng, &tc, &mut uniq);
            let bytes = render(&msg);
            let corrupt = match rng.below(10) {
                0 | 1 => vec![],
                2 | 3 | 4 | 5 | 6 => {
                    let n = rng.urange(1, 3);
                    gen_corruption(&mut rng, &bytes, n, None)
                }
                7 | 8 => {
                    let other = render(&hostile_msg(&mut rng, &tc, &mut uniq));
                    let mut c = vec![Corrupt::Splice { tail: B(other) }];
                    if rng.chance(1, 3) {
                        c.extend(gen_corruption(&mut rng, &bytes, 1, None));
                    }
                    c
                }
                _ => vec![Corrupt::Garbage {
                    bytes: B(gen_garbage(&mut rng, 40)),
                }],
            };
            t.steps.push(Step::Send(SendStep {
                ctl: 0,
                fmt: match rng.below(4) {
                    0 => FmtCfg::Array {
                        cap: *rng.pick(&[0usize, 1, 8, 64, 1024]),
                    },
                    _ => FmtCfg::Vec,
                },
                msg,
                corrupt,
            }));
        }
        t
    }

    fn check(&self, trace: &Trace, stats: &mut Stats) -> Vec<Finding> {
        struct H;
        impl StepHandler for H {
            fn on_send(&mut self, _world: &mut World, _before: &ModelState, i: usize, s: &SendStep, o: &SendObs, stats: &mut Stats, out: &mut Vec<Finding>) {
                // universal invariants were already evaluated by the driver; add hook discipline
                hook_discipline(o, i, out);
                let b = &o.bytes;
                let mut ck: Vec<u8> = s
                    .corrupt
                    .iter()
                    .map(|c| match c {
                        Corrupt::Truncate { .. } => 1,
                        Corrupt::Flip { .. } => 2,
                        Corrupt::Delete { .. } => 3,
                        Corrupt::Insert { .. } => 4,
                        Corrupt::Replace { .. } => 5,
                        Corrupt::Splice { .. } => 6,
                        Corrupt::Garbage { .. } => 7,
                    })
                    .collect();
                ck.sort();
                let code: i16 = match &o.result {
                    Ok(()) => 0,
                    Err(e) => e.code,
                };
                let mut key = ck.clone();
                key.extend_from_slice(&code.to_le_bytes());
                let mut tys: Vec<u8> = o
                    .calls
                    .iter()
                    .flat_map(|c| c.pulls.iter())
                    .map(|p| match p {
                        PullObs::Tok(_) => 1,
                        PullObs::Absent => 2,
                        PullObs::Err(e) => 3 + (e.code.unsigned_abs() % 50) as u8,
                        PullObs::Value(_) => 60,
                    })
                    .collect();
                tys.sort();
                tys.dedup();
                key.extend(tys);
                stats.state(&key);
                for c in &s.corrupt {
                    match c {
                        Corrupt::Splice { .. } => {
                            stats.probe("splice");
                            stats.fault("F7_splice_lost_terminator");
                        }
                        Corrupt::Garbage { .. } => {
                            stats.probe("garbage");
                            stats.fault("F7_garbage");
                        }
                        Corrupt::Truncate { .. } => stats.fault("F7_truncate_eof_mid_message"),
                        Corrupt::Flip { .. } => stats.fault("F7_bit_flip"),
                        Corrupt::Delete { .. } => stats.fault("F7_byte_lost"),
                        Corrupt::Insert { .. } => stats.fault("F7_byte_inserted"),
                        Corrupt::Replace { .. } => stats.fault("F7_byte_replaced"),
                    }
                }
                if let Err(e) = &o.result {
                    match e.code {
                        -161 | -160 => {
                            if b.contains(&b'#') {
                                stats.probe("truncated_definite_block");
                            }
                        }
                        -151 => stats.probe("unterminated_string"),
                        -112 | -144 | -134 => stats.probe("mnemonic_13_or_more"),
                        -101 => stats.probe("non_ascii_byte"),
                        _ => {}
                    }
                }
                {
                    let mut runlen = 0usize;
                    for c in b.iter() {
                        if c.is_ascii_alphanumeric() {
                            runlen += 1;
                            if runlen >= 256 {
                                stats.probe("token_of_256_or_more_characters");
                                break;
                            }
                        } else {
                            runlen = 0;
                        }
                    }
                }
                if b.last() == Some(&b'#') {
                    stats.probe("hash_at_end");
                }
                if b.windows(2).any(|w| w == b"!!") || b.windows(3).any(|w| w == b"(@!") {
                    stats.probe("empty_channel_dimension");
                }
                for c in &o.calls {
                    for (j, p) in c.pulls.iter().enumerate() {
                        match p {
                            PullObs::Err(_) => stats.probe("typed_pull_conversion_error"),
                            PullObs::Value(v) if v.starts_with("numlist") || v.starts_with("chanlist") => stats.probe("list_iterated"),
                            _ => {}
                        }
                        let _ = j;
                    }
                }
                if s.corrupt.is_empty() {
                    for u in &s.msg.units {
                        for (j, e) in u.params.iter().enumerate() {
                            if let Elem::Dec(d) = e {
                                if d.contains('.') && d.len() > 8 {
                                    if let Some(p) = u.plan.pulls.get(j) {
                                        if matches!(p.ty, PullTy::I64 | PullTy::U64 | PullTy::Usize | PullTy::Isize | PullTy::I32 | PullTy::U32) {
                                            stats.probe("integer_bound_via_float_path");
                                        }
                                    }
                                }
                            }
                        }
                    }
                }
            }
        }
        let f = drive(trace, stats, &mut H);
        if trace.run < 3 && stats.samples.is_empty() {
            let msgs: Vec<serde_json::Value> = trace
                .steps
                .iter()
                .take(4)
                .filter_map(|s| match s {
                    Step::Send(x) => Some(serde_json::json!({"delivered": describe_msg(x), "corruption": format!("{:?}", x.corrupt), "pulls": x.msg.units.iter().map(|u| u.plan.pulls.iter().map(|p| format!("{:?}", p.ty)).collect::<Vec<_>>()).collect::<Vec<_>>()})),
                    _ => None,
                })
                .collect();
            stats.samples.push(serde_json::to_string(&msgs).unwrap());
        }
        f
    }
}
