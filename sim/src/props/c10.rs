//! C10 - responses are framed exactly: `;` between units, `,` between data, one final NL.
//! World: query handlers are simulator actors writing scheduled response units (0-2 header
//! parts, 1-5 data of mixed types) interleaved with non-query units, every message ending,
//! both shipped formatters; the output buffer is compared with the framing model.

use crate::exec::{SendObs, World};
use crate::gen::*;
use crate::model::*;
use crate::msg::*;
use crate::props::structural::*;
use crate::props::*;
use crate::rng::{mix, Rng};
use crate::runner::{Finding, Prop, Tier};
use crate::stats::Stats;
use crate::tree::gen_tree;
use crate::types::*;

pub struct C10;

impl Prop for C10 {
    fn id(&self) -> &'static str {
        "C10"
    }
    fn level(&self) -> &'static str {
        "exploration"
    }
    fn rule(&self) -> &'static str {
        "one run = one random tree (optionally with the real mandated commands) and 1-5 successful messages of 1-10 units in any interleaving of queries and non-queries; query handlers write 0-2 response-header parts and 1-5 data of 15 kinds; the message ends by end of input, NL, CR NL, white space, white space + NL, ';', '; ' or ';' NL; formatter is Vec<u8> or a large ArrayVec<u8,N>; the buffer after Ok is compared byte-exactly with join(units,';')+NL built from stand-alone formatted data. distinct_nontrivial = distinct (query/event pattern of the message, ending, formatter kind, header parts of first query, data count of first query) tuples"
    }
    fn assumptions(&self) -> Vec<String> {
        vec![
            "the response buffer is handed in empty, as every example does".into(),
            "every query writes at least one datum (a query producing no output is not covered by the statement)".into(),
            "the text of each datum is whatever the library formats for it stand-alone (value fidelity is C09, n/a)".into(),
        ]
    }
    fn runs(&self, tier: Tier) -> u64 {
        match tier {
            Tier::Quick => 600_000,
            Tier::Thorough => 10_000_000,
            Tier::Tiny => 40,
        }
    }
    fn required_probes(&self) -> Vec<String> {
        let v: Vec<&str> = vec![
            "event_query_event",
            "query_with_unformattable_datum",
            "tolerant_responder_carries_on_after_failed_datum",
            "query_without_output",
            "bounded_buffer_about_as_long_as_the_response",
            "no_query_of_the_message_answers",
            "query_first",
            "query_last",
            "trailing_semicolon_after_query",
            "trailing_semicolon_after_event",
            "single_unit_query",
            "ten_units",
            "header_and_several_data",
            "no_query_message",
            "array_formatter",
            "mandated_query_in_message",
            "finish_called_after_every_datum",
            "unit_with_more_than_255_data",
            "list_with_empty_leading_item",
        ];
        v.into_iter().map(String::from).collect()
    }

    fn gen(&self, seed: u64, run: u64, _tier: Tier) -> Trace {
        let mut rng = Rng::new(mix(seed, "C10", run));
        let mut trng = Rng::new(mix(seed, "C10-tree", run / 64));
        let mandated = trng.chance(1, 3);
        let tree = gen_tree(&mut trng, mandated, 3, 3, 1);
        let cfg = Config {
            queue: QueueCfg::Vec,
            controllers: 1,
            tree,
            plain488: false,
            no_mav: false,
        };
        let mut t = base_trace("C10", seed, run, "framing", cfg.clone());
        let tc = TreeCtx::new(&cfg.tree);
        if tc.sim_leaves.is_empty() {
            return t;
        }
        let nmsg = rng.urange(1, 5);
        let mut uniq = 0u32;
        let qpct = *rng.pick(&[20u64, 50, 80, 100]);
        for _ in 0..nmsg {
            let k = *rng.pick(&[1usize, 1, 2, 3, 5, 10]);
            let k = if k == 10 && rng.chance(1, 2) { 10 } else { rng.urange(1, k) };
            let mut units = Vec::new();
            let mut level: Vec<usize> = Vec::new();
            for i in 0..k {
                let u = if mandated && rng.chance(1, 6) {
                    let c = *rng.pick(&[Contrib::Idn, Contrib::Opc, Contrib::Ese, Contrib::SystVersion, Contrib::SystErrCount, Contrib::Wai, Contrib::Rst]);
                    let query = !matches!(c, Contrib::Wai | Contrib::Rst);
                    contrib_unit(&mut rng, &tc, c, query, vec![], &level, i == 0)
                } else {
                    let leaf = pick_sim_leaf(&mut rng, &tc).unwrap().clone();
                    let o = UnitOpts {
                        max_params: 2,
                        allow_indef_last: false,
                        query_pct: qpct,
                        max_data: 5,
                        fancy_ws: true,
                    };
                    let mut u = gen_app_unit(&mut rng, &tc, &leaf, &level, i == 0, &mut uniq, &o);
                    // successful: consume exactly what is there
                    for p in u.plan.pulls.iter_mut() {
                        p.req = rng.chance(1, 2);
                    }
                    // some handlers check for a full buffer after every datum
                    u.plan.finish_each = rng.chance(1, 5);
                    // ... and some of those carry on whatever it says (only the last finish() counts)
                    u.plan.finish_ignore = u.plan.finish_each && rng.chance(1, 2);
                    if u.query && rng.chance(1, 1500) {
                        // a very long response unit (length counters)
                        let n = rng.urange(255, 300);
                        u.plan.data = (0..n).map(|k| Datum::U8((k % 10) as u8)).collect();
                    }
                    u
                };
                let mut u = u;
                if i > 0 && rng.chance(1, 4) {
                    u.lead = gen_ws(&mut rng, false);
                }
                if let Some(l) = level_after(&tc, &level, i == 0, u.colon, &u.path) {
                    level = l;
                }
                units.push(u);
            }
            let end = *rng.pick(&["", "", "\n", "\r\n", " ", " \n", ";", ";", ";\n", "; "]);
            let mut fmt = if rng.chance(1, 3) {
                FmtCfg::Array {
                    cap: *rng.pick(&[1024usize, 4096]),
                }
            } else {
                FmtCfg::Vec
            };
            let msg = Msg { units, end: B::from(end) };
            if rng.chance(1, 8) {
                // a bounded buffer that is exactly as long as the response, or a byte or two
                // shorter / longer (a message that then still "succeeds" must be framed completely)
                let probe = SendStep {
                    ctl: 0,
                    fmt: FmtCfg::Vec,
                    msg: msg.clone(),
                    corrupt: vec![],
                };
                let p = predict(&tc.root, &crate::props::c15::fresh_shadow(&cfg), &probe, Reading::Condition);
                if let Some(o) = &p.out {
                    if !o.is_empty() && o.len() < 190 {
                        let cap = (o.len() as i64 + *rng.pick(&[-1i64, -1, -2, 0, 0, 1])).max(0) as usize;
                        fmt = FmtCfg::Array { cap };
                    }
                }
            }
            t.steps.push(Step::Send(SendStep {
                ctl: 0,
                fmt,
                msg,
                corrupt: vec![],
            }));
        }
        t
    }

    fn check(&self, trace: &Trace, stats: &mut Stats) -> Vec<Finding> {
        struct H;
        impl StepHandler for H {
            fn on_send(&mut self, world: &mut World, before: &ModelState, i: usize, s: &SendStep, o: &SendObs, stats: &mut Stats, out: &mut Vec<Finding>) {
                let mut pred = super::predict_seen_allow(world, before, s, o, Reading::Condition, A_ALL & !A_QEND);
                if !pred.structural {
                    return;
                }
                if let (FmtCfg::Array { cap }, true, true) = (&s.fmt, o.result.is_ok(), matches!(pred.result, Err(ExpErr::Code(-225)))) {
                    // the response should not have fitted - but the message succeeded: whatever the
                    // capacity, a successful message holds the complete, framed response
                    let mut sv = s.clone();
                    sv.fmt = FmtCfg::Vec;
                    let pv = predict(&world.root, before, &sv, Reading::Condition);
                    if pv.structural && pv.result.is_ok() {
                        stats.bump("succeeded_in_a_buffer_predicted_too_small");
                        let _ = cap;
                        pred = pv;
                    }
                }
                if matches!(s.fmt, FmtCfg::Array { cap } if cap < 200) {
                    stats.probe("bounded_buffer_about_as_long_as_the_response");
                }
                if pred.result.is_err() {
                    // a query one of whose data cannot be formatted at all (the write fails, the
                    // response unit latches it): if the message nevertheless "succeeds", what the
                    // buffer holds is not the response units of the executed queries
                    if let Some(fu) = pred.fail_unit {
                        let u = &s.msg.units[fu];
                        if u.query && u.plan.fail.is_none() && u.plan.data.iter().any(|d| crate::device::datum_text(d).is_err()) {
                            stats.probe("query_with_unformattable_datum");
                            if u.plan.finish_ignore && u.plan.data.len() >= 2 {
                                stats.probe("tolerant_responder_carries_on_after_failed_datum");
                            }
                            if o.result.is_ok() {
                                out.push(Finding::new(
                                    "C10.framing",
                                    "message_succeeded_although_a_datum_could_not_be_written",
                                    i,
                                    format!("message {} ({}): unit {} has a datum that cannot be formatted, yet the message succeeded with buffer {:?}", describe_msg(s), format!("{:?}", s.fmt), fu, B(o.out.clone())),
                                ));
                            }
                        }
                    }
                    stats.bump("predicted_failure_skipped");
                    return;
                }
                let pattern: Vec<u8> = s.msg.units.iter().map(|u| u.query as u8).collect();
                let k = pattern.len();
                let trailing_semi = s.msg.end.as_slice().starts_with(b";");
                let fq = s.msg.units.iter().find(|u| u.query);
                let mut key = pattern.clone();
                key.push(0xff);
                key.extend_from_slice(s.msg.end.as_slice());
                key.push(matches!(s.fmt, FmtCfg::Array { .. }) as u8);
                if let Some(u) = fq {
                    key.push(u.plan.hdr.len() as u8);
                    key.push(u.plan.data.len() as u8);
                }
                stats.state(&key);
                if pattern.windows(3).any(|w| w == [0, 1, 0]) {
                    stats.probe("event_query_event");
                }
                if pattern[0] == 1 && k > 1 {
                    stats.probe("query_first");
                }
                if pattern[k - 1] == 1 && k > 1 {
                    stats.probe("query_last");
                }
                if trailing_semi {
                    stats.probe(if pattern[k - 1] == 1 {
                        "trailing_semicolon_after_query"
                    } else {
                        "trailing_semicolon_after_event"
                    });
                }
                if k == 1 && pattern[0] == 1 {
                    stats.probe("single_unit_query");
                }
                if k == 10 {
                    stats.probe("ten_units");
                }
                if s.msg.units.iter().any(|u| u.query && !u.plan.hdr.is_empty() && u.plan.data.len() >= 3) {
                    stats.probe("header_and_several_data");
                }
                if !pattern.contains(&1) {
                    stats.probe("no_query_message");
                }
                if s.msg.units.iter().any(|u| u.query && u.plan.hdr.is_empty() && u.plan.data.is_empty()) {
                    stats.probe("query_without_output");
                    if s.msg.units.iter().filter(|u| u.query).all(|u| u.plan.hdr.is_empty() && u.plan.data.is_empty()) {
                        stats.probe("no_query_of_the_message_answers");
                    }
                }
                for u in &s.msg.units {
                    if u.query && u.plan.data.len() > 255 {
                        stats.probe("unit_with_more_than_255_data");
                    }
                    if u.query && u.plan.data.iter().any(|d| matches!(d, Datum::ChrList(l) if l.len() > 1 && l[0].is_empty())) {
                        stats.probe("list_with_empty_leading_item");
                    }
                }
                if s.msg.units.iter().any(|u| u.query && u.plan.finish_each && u.plan.data.len() >= 2) {
                    stats.probe("finish_called_after_every_datum");
                }
                if matches!(s.fmt, FmtCfg::Array { .. }) {
                    stats.probe("array_formatter");
                }
                if pred.executed.iter().any(|(_, _, q)| *q) {
                    stats.probe("mandated_query_in_message");
                }
                if let Err(e) = &o.result {
                    // a well-formed, fully consumed message must succeed for framing to be judged;
                    // failure here is another property's business
                    stats.bump("unexpected_failure_skipped");
                    let _ = e;
                    return;
                }
                if let Some(df) = cmp_out(&pred, o) {
                    out.push(Finding::new(
                        "C10.framing",
                        df.sig,
                        i,
                        format!("message {} ({:?}): {}", describe_msg(s), s.fmt, df.detail),
                    ));
                }
            }
        }
        let f = drive(trace, stats, &mut H);
        if trace.run < 3 && stats.samples.is_empty() {
            let msgs: Vec<String> = trace
                .steps
                .iter()
                .take(4)
                .filter_map(|s| match s {
                    Step::Send(x) => Some(describe_msg(x)),
                    _ => None,
                })
                .collect();
            stats.samples.push(serde_json::to_string(&msgs).unwrap());
        }
        f
    }
}
