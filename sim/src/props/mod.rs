//! Property checks. Each module has a workload generator (pure function of the seed) and a
//! checker that executes a trace against the real code and compares with the reference model.

use crate::exec::{SendObs, World};
use crate::model::*;
use crate::runner::{Finding, Prop};
use crate::stats::Stats;
use crate::types::*;

pub mod c01;
pub mod c02;
pub mod c04;
pub mod c05;
pub mod c06;
pub mod c10;
pub mod c11;
pub mod c12;
pub mod c13;
pub mod c14;
pub mod c15;
pub mod c16;
pub mod structural;

pub fn all() -> Vec<Box<dyn Prop>> {
    vec![
        Box::new(c01::C01),
        Box::new(c02::C02),
        Box::new(c04::C04),
        Box::new(c05::C05),
        Box::new(c06::C06),
        Box::new(c10::C10),
        Box::new(c11::C11),
        Box::new(c12::C12),
        Box::new(c13::C13),
        Box::new(c14::C14),
        Box::new(c15::C15),
        Box::new(c16::C16),
    ]
}

pub fn by_id(id: &str) -> Option<Box<dyn Prop>> {
    all().into_iter().find(|p| p.id().eq_ignore_ascii_case(id))
}

pub fn base_trace(prop: &str, seed: u64, run: u64, mode: &str, config: Config) -> Trace {
    Trace {
        v: 1,
        property: prop.to_string(),
        seed,
        run,
        profile: crate::runner::profile_name().to_string(),
        mode: mode.to_string(),
        config,
        steps: Vec::new(),
        violation: None,
    }
}

pub fn step_kind_byte(s: &Step) -> u8 {
    match s {
        Step::Send(x) => {
            if x.corrupt.is_empty() {
                b'S'
            } else {
                b'X'
            }
        }
        Step::Read { .. } => b'R',
        Step::Hw(_) => b'H',
        Step::Tst { .. } => b'T',
        Step::Q(QOp::Push(_)) => b'p',
        Step::Q(QOp::Pop) => b'o',
        Step::Q(QOp::Clear) => b'c',
        Step::Q(QOp::Len) => b'l',
        Step::Q(QOp::IsEmpty) => b'e',
        Step::Prefill(_) => b'P',
    }
}

pub fn log_obs(stats: &mut Stats, o: &SendObs) {
    stats.log(&o.bytes);
    match &o.result {
        Ok(()) => stats.log(b"ok"),
        Err(e) => stats.log_str(&format!("{:?}", e)),
    }
    stats.log(&o.out);
    stats.log_str(&format!("{:?}|{:?}|{:?}|{}", o.hook, o.calls, o.dev, o.allocs));
    if let Some(p) = &o.panic {
        stats.log_str(p);
    }
}

/// Invariants that hold for any bytes whatsoever (stay on under transport corruption).
pub fn universal(o: &SendObs, step: usize, out: &mut Vec<Finding>) -> bool {
    if let Some(p) = &o.panic {
        // strip line numbers from the signature so that it survives unrelated edits
        let sig = panic_signature(p);
        out.push(Finding::new(
            "C01.panic",
            sig,
            step,
            format!("panic while executing {:?}: {}", B(o.bytes.clone()), p),
        ));
        return false;
    }
    if let Err(e) = &o.result {
        if e.code == -300 {
            if let Some(x) = &e.ext {
                if x.as_slice().starts_with(b"Internal parser error") {
                    out.push(Finding::new(
                        "C01.internal_parser_error",
                        "internal_parser_error_surfaced",
                        step,
                        format!("message {:?} returned the library's internal error {:?}", B(o.bytes.clone()), e),
                    ));
                }
            }
        }
    }
    for c in &o.calls {
        for p in &c.pulls {
            if let PullObs::Err(e) = p {
                if e.code == -300 && e.ext.as_ref().map(|x| x.as_slice().starts_with(b"Internal parser error")).unwrap_or(false) {
                    out.push(Finding::new(
                        "C01.internal_parser_error",
                        "internal_parser_error_in_conversion",
                        step,
                        format!("a parameter conversion in {:?} returned {:?}", B(o.bytes.clone()), e),
                    ));
                }
            }
            if let PullObs::Tok(Tok::Other(t)) = p {
                out.push(Finding::new(
                    "C01.non_data_token_handed_out",
                    "parameters_handed_out_non_data_token",
                    step,
                    format!("handler received non-data token {} in {:?}", t, B(o.bytes.clone())),
                ));
            }
        }
    }
    if let Err(d) = &o.lexer_progress {
        out.push(Finding::new(
            "C01.lexer_progress",
            if d.starts_with("tokenizer panicked") { "tokenizer_panicked" } else { "tokenizer_no_progress" },
            step,
            format!("{} on {:?}", d, B(o.bytes.clone())),
        ));
    }
    true
}

pub fn panic_signature(p: &str) -> String {
    // "msg @ file:line" -> "msg @ file" with digits squeezed
    let (msg, loc) = match p.rsplit_once(" @ ") {
        Some((m, l)) => (m, l),
        None => (p, ""),
    };
    let file = loc.rsplit_once(':').map(|x| x.0).unwrap_or(loc);
    let file = file.rsplit('/').next().unwrap_or(file);
    let mut m: String = msg.chars().take(60).collect();
    m = m.chars().map(|c| if c.is_ascii_digit() { '#' } else { c }).collect();
    format!("{} @ {}", m, file)
}

/// C05's universal half: returned error <=> error hook called exactly once with exactly it.
pub fn hook_discipline(o: &SendObs, step: usize, out: &mut Vec<Finding>) {
    match &o.result {
        Ok(()) => {
            if !o.hook.is_empty() {
                out.push(Finding::new(
                    "C05.hook_on_success",
                    "error_hook_called_on_successful_message",
                    step,
                    format!("message {:?} returned Ok but the error hook received {:?}", B(o.bytes.clone()), o.hook),
                ));
            }
        }
        Err(e) => {
            if o.hook.is_empty() {
                out.push(Finding::new(
                    "C05.hook_once",
                    "error_hook_not_called",
                    step,
                    format!("message {:?} returned {:?} but the error hook was never called", B(o.bytes.clone()), e),
                ));
            } else if o.hook.len() > 1 {
                out.push(Finding::new(
                    "C05.hook_once",
                    "error_hook_called_more_than_once",
                    step,
                    format!("message {:?} returned {:?}; hook calls: {:?}", B(o.bytes.clone()), e, o.hook),
                ));
            } else if &o.hook[0] != e {
                let sig = if o.hook[0].code != e.code {
                    "error_hook_got_different_code"
                } else {
                    "error_hook_got_different_text"
                };
                out.push(Finding::new(
                    "C05.hook_exact",
                    sig,
                    step,
                    format!("message {:?} returned {:?} but the hook received {:?}", B(o.bytes.clone()), e, o.hook[0]),
                ));
            }
        }
    }
}

pub trait StepHandler {
    fn on_send(
        &mut self,
        world: &mut World,
        before: &ModelState,
        i: usize,
        step: &SendStep,
        obs: &SendObs,
        stats: &mut Stats,
        out: &mut Vec<Finding>,
    );
    /// called after a hardware step was applied to both the device and `model`
    fn on_hw(&mut self, _world: &World, _before: &ModelState, _model: &ModelState, _i: usize, _op: &HwOp, _stats: &mut Stats, _out: &mut Vec<Finding>) {}
}

/// Shared driver: walks the steps of a trace in the full-instrument world. The reference model
/// is advanced beside the device; after every step it adopts the device state so that one
/// divergence is reported once and never cascades.
pub fn drive(trace: &Trace, stats: &mut Stats, h: &mut dyn StepHandler) -> Vec<Finding> {
    let mut findings = Vec::new();
    let mut world = match World::new(&trace.config) {
        Some(w) => w,
        None => {
            findings.push(Finding::new("harness.config", "unsupported_config", 0, "unsupported configuration"));
            return findings;
        }
    };
    let shape: Vec<u8> = trace.steps.iter().map(step_kind_byte).collect();
    stats.shape(&shape);
    let mut model = world.adopt();
    for (i, step) in trace.steps.iter().enumerate() {
        stats.bump("steps");
        match step {
            Step::Send(s) => {
                if let FmtCfg::Array { cap } = &s.fmt {
                    if !crate::exec::array_cap_supported(*cap) {
                        findings.push(Finding::new("harness.config", "unsupported_capacity", i, "capacity"));
                        return findings;
                    }
                }
                let obs = world.exec_send(s);
                log_obs(stats, &obs);
                stats.add("units", s.msg.units.len() as u64);
                stats.bump("messages");
                if !s.corrupt.is_empty() {
                    stats.add("fault.F7_transport_corruption", s.corrupt.len() as u64);
                }
                let alive = universal(&obs, i, &mut findings);
                if !alive {
                    return findings;
                }
                h.on_send(&mut world, &model, i, s, &obs, stats, &mut findings);
            }
            Step::Read { ctl } => world.exec_read(*ctl),
            Step::Hw(op) => {
                let before = model.clone();
                {
                    let g = model.reg(op.reg);
                    let t = op.target(g.cond);
                    g.set_condition(t);
                    if op.op == HwKind::Enable {
                        g.enable = op.value;
                    }
                }
                world.exec_hw(op);
                stats.fault("F9_condition_change");
                h.on_hw(&world, &before, &model, i, op, stats, &mut findings);
            }
            Step::Prefill(b) => {
                world.prefill = b.0.clone();
            }
            Step::Tst { code } => {
                world.exec_tst(*code);
                if *code != 0 {
                    stats.fault("F10_selftest_fails");
                }
            }
            Step::Q(op) => {
                if let Err(p) = world.exec_q(op) {
                    findings.push(Finding::new("C01.panic", panic_signature(&p), i, format!("queue operation {:?} panicked: {}", op, p)));
                    return findings;
                }
                // adopting copies the whole queue: do it once after a burst of queue operations
                if matches!(trace.steps.get(i + 1), Some(Step::Q(_))) {
                    continue;
                }
            }
        }
        model = world.adopt();
    }
    findings
}

/// If every unit of the (fault-free) message addresses a mandated command, the list of them.
pub fn pure_contrib(world: &World, s: &SendStep) -> Option<Vec<Contrib>> {
    use crate::tree::{resolve, Resolved, H};
    if !s.corrupt.is_empty() {
        return None;
    }
    let mut level: Vec<usize> = Vec::new();
    let mut v = Vec::new();
    for (i, u) in s.msg.units.iter().enumerate() {
        if u.hfault.is_some() || u.pfault.is_some() {
            return None;
        }
        match resolve(&world.root, &level, i == 0, u.colon, &u.path) {
            Resolved::Leaf { h: H::Contrib(c), level: l } => {
                level = l;
                v.push(c);
            }
            _ => return None,
        }
    }
    Some(v)
}

pub fn describe_msg(s: &SendStep) -> String {
    format!("{:?}", B(World::message_bytes(s)))
}

/// property-specific additions to the evidence part (e.g. exhaustive sub-sweeps)
pub fn extra_evidence(_id: &str, _part: &mut crate::runner::Part) {}

/// `predict`, with the alternative chosen where the observation fits it (see `model::predict_obs`).
pub fn predict_seen(world: &World, before: &crate::model::ModelState, s: &SendStep, o: &SendObs, reading: crate::model::Reading) -> crate::model::Pred {
    predict_seen_allow(world, before, s, o, reading, crate::model::A_ALL)
}

/// ... with the alternatives this property's statement leaves open (`model::A_*`)
pub fn predict_seen_allow(world: &World, before: &crate::model::ModelState, s: &SendStep, o: &SendObs, reading: crate::model::Reading, allow: u8) -> crate::model::Pred {
    crate::model::predict_obs(&world.root, before, s, reading, o.calls.len(), &o.result, &o.out, &world.adopt(), &o.lex_err, allow)
}
