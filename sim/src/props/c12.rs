//! C12 - the error/event queue is a bounded FIFO whose overflow is marked by -350.
//! World: producer and consumer actors on one of the two shipped queue implementations,
//! compared operation by operation (result + full contents) with a bounded-FIFO model.

use crate::exec::{QObs, World};
use crate::gen::gen_err_spec;
use crate::model::{spec_obs, QueueModel};
use crate::props::{base_trace, step_kind_byte};
use crate::rng::{mix, Rng};
use crate::runner::{Finding, Prop, Tier};
use crate::stats::Stats;
use crate::types::*;

pub struct C12;

impl Prop for C12 {
    fn id(&self) -> &'static str {
        "C12"
    }
    fn level(&self) -> &'static str {
        "exploration"
    }
    fn rule(&self) -> &'static str {
        "one run = one queue (Vec<Error> or ArrayVec<Error,N>, N in {1,2,3,4,5,8,16,32}) and a seeded history of up to 300 push/pop/clear/len/is_empty operations with swarm-chosen producer/consumer rates; after every operation result, length, emptiness and full contents are compared with a bounded-FIFO model. distinct_nontrivial = distinct (queue kind, capacity, model length before, operation kind, overflow?) tuples reached"
    }
    fn assumptions(&self) -> Vec<String> {
        vec![
            "capacity >= 1 (the property's quantifier); ArrayVec<Error,0> is not exercised".into(),
            "errors are built through the public constructors (Error::new / custom / extended)".into(),
        ]
    }
    fn runs(&self, tier: Tier) -> u64 {
        match tier {
            Tier::Quick => 1_000_000,
            Tier::Thorough => 4_000_000,
            Tier::Tiny => 200,
        }
    }
    fn required_probes(&self) -> Vec<String> {
        let v: Vec<&str> = vec![
            "overflow_twice_in_a_row",
            "overflow_pop_overflow",
            "clear_on_full",
            "pop_on_empty",
            "capacity_one",
            "vec_queue_long",
        ];
        v.into_iter().map(String::from).collect()
    }

    fn gen(&self, seed: u64, run: u64, tier: Tier) -> Trace {
        let mut rng = Rng::new(mix(seed, "C12", run));
        let queue = if rng.chance(1, 4) {
            QueueCfg::Vec
        } else {
            QueueCfg::Array {
                cap: *rng.pick(crate::device::ARRAY_QUEUE_CAPS),
            }
        };
        let cfg = Config {
            queue,
            controllers: 1,
            tree: TreeDesc::default(),
            plain488: false,
            no_mav: false,
        };
        let mut t = base_trace("C12", seed, run, "history", cfg);
        // swarm: producer / consumer rates
        let w_push = *rng.pick(&[1u32, 2, 4, 8]);
        let w_pop = *rng.pick(&[0u32, 1, 2, 4]);
        let w_clear = *rng.pick(&[0u32, 0, 1]);
        let w_len = *rng.pick(&[0u32, 1, 2]);
        let w_empty = *rng.pick(&[0u32, 1]);
        let n = if tier == Tier::Thorough && run % 64 == 63 { 3000 } else { *rng.pick(&[3usize, 8, 20, 60, 150, 300]) };
        let n = rng.urange(1, n);
        let mut k: i16 = 0;
        // a stuck fault: one and the same error reported over and over (every one of them is an
        // insertion: 257..700 identical entries in a row, then read back / counted)
        if rng.chance(1, 40) {
            let e = gen_err_spec(&mut rng);
            let reps = *rng.pick(&[255usize, 256, 257, 258, 300, 513, 700]);
            for j in 0..reps {
                t.steps.push(Step::Q(QOp::Push(e.clone())));
                if j + 1 == 256 && rng.chance(1, 2) {
                    t.steps.push(Step::Q(QOp::Len));
                }
            }
            t.steps.push(Step::Q(QOp::Len));
            if rng.chance(1, 2) {
                for _ in 0..rng.urange(1, 8) {
                    t.steps.push(Step::Q(QOp::Pop));
                }
                t.steps.push(Step::Q(QOp::Len));
            }
        }
        for _ in 0..n {
            let op = match rng.weighted(&[w_push, w_pop, w_clear, w_len, w_empty]) {
                0 => {
                    k = k.wrapping_add(1);
                    let mut e = gen_err_spec(&mut rng);
                    if rng.chance(1, 2) {
                        // unique custom code so that every entry is attributable
                        e.code = 1000 + (k % 20000);
                    }
                    QOp::Push(e)
                }
                1 => QOp::Pop,
                2 => QOp::Clear,
                3 => QOp::Len,
                _ => QOp::IsEmpty,
            };
            t.steps.push(Step::Q(op));
        }
        t
    }

    fn check(&self, trace: &Trace, stats: &mut Stats) -> Vec<Finding> {
        let mut out = Vec::new();
        let mut world = match World::new(&trace.config) {
            Some(w) => w,
            None => return vec![Finding::new("harness.config", "unsupported_config", 0, "queue config")],
        };
        let mut model = QueueModel::new(&trace.config.queue);
        let shape: Vec<u8> = trace.steps.iter().map(step_kind_byte).collect();
        stats.shape(&shape);
        let (kind, cap) = match &trace.config.queue {
            QueueCfg::Vec => (0u8, 0usize),
            QueueCfg::Array { cap } => (1u8, *cap),
        };
        if cap == 1 {
            stats.probe("capacity_one");
        }
        let mut last_overflow = false;
        let mut overflow_then_pop = false;
        for (i, step) in trace.steps.iter().enumerate() {
            let op = match step {
                Step::Q(op) => op,
                _ => continue,
            };
            stats.bump("steps");
            let len_before = model.items.len();
            let full = model.cap.map(|c| len_before >= c).unwrap_or(false);
            let obs = match world.exec_q(op) {
                Ok(o) => o,
                Err(p) => {
                    out.push(Finding::new(
                        "C12.panic",
                        crate::props::panic_signature(&p),
                        i,
                        format!("queue operation {:?} panicked: {}", op, p),
                    ));
                    return out;
                }
            };
            stats.log_str(&format!("{:?}", obs));
            let mut opk = 0u8;
            match (op, &obs) {
                (QOp::Push(spec), QObs::Pushed) => {
                    if full {
                        stats.fault("F8_queue_overflow");
                        if last_overflow {
                            stats.probe("overflow_twice_in_a_row");
                        }
                        if overflow_then_pop {
                            stats.probe("overflow_pop_overflow");
                        }
                        last_overflow = true;
                        overflow_then_pop = false;
                        opk = 10;
                    } else {
                        last_overflow = false;
                    }
                    model.push(spec_obs(spec));
                    if model.cap.is_none() && model.items.len() > 40 {
                        stats.probe("vec_queue_long");
                    }
                }
                (QOp::Pop, QObs::Popped(got)) => {
                    opk = 1;
                    if len_before == 0 {
                        stats.probe("pop_on_empty");
                    }
                    if last_overflow {
                        overflow_then_pop = true;
                    }
                    last_overflow = false;
                    let exp = model.pop();
                    if *got != exp {
                        let sig = match (&exp, got) {
                            (Some(_), None) => "pop_returned_nothing_from_non_empty_queue",
                            (None, Some(_)) => "pop_returned_item_from_empty_queue",
                            _ => "pop_returned_wrong_item",
                        };
                        out.push(Finding::new(
                            "C12.fifo_order",
                            sig,
                            i,
                            format!("pop returned {:?}, the oldest unread item is {:?}", got, exp),
                        ));
                    }
                }
                (QOp::Clear, QObs::Cleared) => {
                    opk = 2;
                    if full {
                        stats.probe("clear_on_full");
                    }
                    last_overflow = false;
                    overflow_then_pop = false;
                    model.clear();
                }
                (QOp::Len, QObs::Len(n)) => {
                    opk = 3;
                    if *n != model.items.len() {
                        out.push(Finding::new(
                            "C12.length",
                            if *n > model.items.len() { "length_too_large" } else { "length_too_small" },
                            i,
                            format!("num_errors() = {}, queue holds {} unread items", n, model.items.len()),
                        ));
                    }
                }
                (QOp::IsEmpty, QObs::IsEmpty(b)) => {
                    opk = 4;
                    if *b != model.items.is_empty() {
                        out.push(Finding::new(
                            "C12.length",
                            "is_empty_wrong",
                            i,
                            format!("is_empty() = {}, queue holds {} unread items", b, model.items.len()),
                        ));
                    }
                }
                _ => {}
            }
            stats.state(&[kind, cap as u8, len_before.min(40) as u8, opk]);
            // full contents after every operation
            let contents = world.dev.queue.contents();
            if let Some(c) = model.cap {
                if contents.len() > c {
                    out.push(Finding::new(
                        "C12.capacity",
                        "holds_more_than_capacity",
                        i,
                        format!("queue of capacity {} holds {} entries", c, contents.len()),
                    ));
                }
            }
            if contents != model.items {
                let sig = if contents.len() != model.items.len() {
                    if contents.len() < model.items.len() {
                        "entry_lost"
                    } else {
                        "extra_entry"
                    }
                } else {
                    let idx = contents.iter().zip(model.items.iter()).position(|(a, b)| a != b).unwrap_or(0);
                    let exp_marker = model.items[idx].code == -350 && matches!(op, QOp::Push(_)) && full;
                    if exp_marker {
                        "overflow_not_marked_in_newest_position"
                    } else if idx + 1 == contents.len() {
                        "newest_entry_differs"
                    } else {
                        "older_entry_changed"
                    }
                };
                out.push(Finding::new(
                    "C12.contents",
                    sig,
                    i,
                    format!("after {:?}: queue contents {:?}, expected {:?}", op, contents, model.items),
                ));
                // adopt
                model.items = contents;
            }
            if out.len() > 8 {
                break;
            }
        }
        if stats.samples.is_empty() {
            stats.samples.push(serde_json::to_string(&serde_json::json!({"queue": trace.config.queue, "ops": trace.steps.iter().take(12).collect::<Vec<_>>() })).unwrap());
        }
        out
    }
}
