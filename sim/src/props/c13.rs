//! C13 - every failed message is queued once, flagged in ESR, and read back in order.
//! World: the full instrument (real mandated tree + random application sub-tree) driven by 1-3
//! controllers through long mixed histories with failures of every kind.

use crate::exec::{SendObs, World};
use crate::gen::*;
use crate::model::*;
use crate::props::*;
use crate::rng::{mix, Rng};
use crate::runner::{Finding, Prop, Tier};
use crate::stats::Stats;
use crate::tree::gen_tree;
use crate::types::*;

pub struct C13;

/// A register-value element for *ESE / *SRE / ENABle ...: NR1 or non-decimal, in or out of range
pub fn gen_reg_value(rng: &mut Rng, max: u64) -> (Elem, &'static str) {
    let (v, tag): (u64, &'static str) = match rng.below(10) {
        0 => (max + 1, "range"),
        1 => (max + rng.below(1000) + 1, "range"),
        2 => (0, "ok"),
        3 => (max, "ok"),
        4 => (1 << rng.below(if max > 255 { 16 } else { 8 }), "ok"),
        _ => (rng.below(max + 1), "ok"),
    };
    let e = match rng.below(5) {
        0 => Elem::NonDec {
            radix: *rng.pick(&['H', 'h']),
            digits: format!("{:X}", v),
        },
        1 => Elem::NonDec {
            radix: *rng.pick(&['Q', 'q']),
            digits: format!("{:o}", v),
        },
        2 => Elem::NonDec {
            radix: *rng.pick(&['B', 'b']),
            digits: format!("{:b}", v),
        },
        3 => Elem::Dec(spell_integer(rng, v)),
        _ => Elem::Dec(format!("{}", v)),
    };
    (e, tag)
}

/// Spell the integer `v` as a decimal literal in one of the NR1 / NR2 / NR3 forms that denote
/// exactly `v` (no rounding involved).
pub fn spell_integer(rng: &mut Rng, v: u64) -> String {
    match rng.below(12) {
        0 => format!("{}.0", v),
        1 => format!("{}.", v),
        2 => format!("{}E0", v),
        3 => format!("{}.{}E1", v / 10, v % 10),
        4 => format!("{}0E-1", v),
        5 => format!("{}00e-2", v),
        6 => format!("+{}", v),
        7 => format!("00{}", v),
        8 => format!("{}.000", v),
        9 => format!("0.{:05}E5", v), // v < 100000
        10 => format!("{}.0E+0", v),
        _ => format!("{}", v),
    }
}

pub fn wrong_type_elem(rng: &mut Rng) -> Elem {
    match rng.below(5) {
        0 => Elem::Str {
            q: '"',
            inner: B::from("x"),
        },
        1 => Elem::Blk {
            payload: B::from("ab"),
            pad: 0,
        },
        2 => Elem::Expr(B::from("1,2")),
        3 => Elem::Chr("POTATO".into()),
        _ => Elem::DecSuf {
            num: "1".into(),
            ws: B::new(),
            suf: "V".into(),
        },
    }
}

/// One special run: more than 65535 unread items in the growable queue, then the count and
/// read-back queries.
fn big_queue_trace(seed: u64, run: u64) -> Trace {
    let mut rng = Rng::new(mix(seed, "C13-big", run));
    let cfg = Config {
        queue: QueueCfg::Vec,
        controllers: 1,
        tree: TreeDesc {
            mandated: true,
            app: vec![],
            fixed: None,
        },
        plain488: false,
        no_mav: false,
    };
    let mut t = base_trace("C13", seed, run, "big_queue", cfg.clone());
    let tc = TreeCtx::new(&cfg.tree);
    let n = 65_530 + rng.below(5000) as usize;
    for k in 0..n {
        t.steps.push(Step::Q(QOp::Push(ErrSpec {
            code: 100 + (k % 30000) as i16,
            ext: None,
            msg: (k % 6) as u8,
        })));
    }
    for c in [Contrib::SystErrCount, Contrib::SystErrNext, Contrib::SystErrCount] {
        let u = contrib_unit(&mut rng, &tc, c, true, vec![], &[], true);
        t.steps.push(Step::Send(SendStep {
            ctl: 0,
            fmt: FmtCfg::Vec,
            msg: Msg {
                units: vec![u],
                end: B::new(),
            },
            corrupt: vec![],
        }));
    }
    t
}

/// Special runs: a backlog of 63..300 unread items (counts around 64 / 256), then `:COUNt?`,
/// `:ALL?` (which must return every item and leave the queue empty), `:COUNt?`, `[:NEXT]?`.
fn backlog_trace(seed: u64, run: u64) -> Trace {
    let mut rng = Rng::new(mix(seed, "C13-backlog", run));
    let cfg = Config {
        queue: if rng.chance(1, 4) { QueueCfg::Array { cap: 16 } } else { QueueCfg::Vec },
        controllers: 1,
        tree: TreeDesc {
            mandated: true,
            app: vec![],
            fixed: None,
        },
        plain488: false,
        no_mav: false,
    };
    let mut t = base_trace("C13", seed, run, "backlog", cfg.clone());
    let tc = TreeCtx::new(&cfg.tree);
    let n = *rng.pick(&[63usize, 64, 65, 66, 100, 128, 129, 255, 256, 257, 300]);
    for k in 0..n {
        t.steps.push(Step::Q(QOp::Push(ErrSpec {
            code: 100 + (k % 30000) as i16,
            ext: None,
            msg: (k % 6) as u8,
        })));
    }
    let seq: &[Contrib] = if rng.chance(1, 2) {
        &[Contrib::SystErrCount, Contrib::SystErrAll, Contrib::SystErrCount, Contrib::SystErrNext]
    } else {
        &[Contrib::SystErrNext, Contrib::SystErrAll, Contrib::SystErrCount, Contrib::SystErrAll]
    };
    for c in seq {
        let u = contrib_unit(&mut rng, &tc, *c, true, vec![], &[], true);
        t.steps.push(Step::Send(SendStep {
            ctl: 0,
            fmt: FmtCfg::Vec,
            msg: Msg {
                units: vec![u],
                end: B::new(),
            },
            corrupt: vec![],
        }));
    }
    t
}

pub struct HistGen<'a> {
    pub rng: &'a mut Rng,
    pub tc: TreeCtx,
    pub uniq: u32,
    pub shadow: ModelState,
}

impl<'a> HistGen<'a> {
    /// a valid application message of 1..max units
    pub fn app_msg(&mut self, max_units: usize) -> Msg {
        let n = self.rng.urange(1, max_units);
        let mut units = Vec::new();
        let mut level: Vec<usize> = Vec::new();
        for i in 0..n {
            let leaf = match pick_sim_leaf(self.rng, &self.tc) {
                Some(l) => l.clone(),
                None => break,
            };
            let o = UnitOpts {
                max_params: 3,
                ..Default::default()
            };
            let mut u = gen_app_unit(self.rng, &self.tc, &leaf, &level, i == 0, &mut self.uniq, &o);
            if i > 0 && self.rng.chance(1, 4) {
                u.lead = crate::msg::gen_ws(self.rng, false);
            }
            if let Some(l) = level_after(&self.tc, &level, i == 0, u.colon, &u.path) {
                level = l;
            }
            units.push(u);
        }
        Msg {
            units,
            end: B::from(*self.rng.pick(&["", "", "\n", " \n", "\r\n"])),
        }
    }

    pub fn c(&mut self, c: Contrib, query: bool, params: Vec<Elem>, level: &[usize], first: bool) -> Unit {
        contrib_unit(self.rng, &self.tc, c, query, params, level, first)
    }

    pub fn single(&mut self, c: Contrib, query: bool, params: Vec<Elem>) -> Msg {
        let u = self.c(c, query, params, &[], true);
        Msg {
            units: vec![u],
            end: B::from(*self.rng.pick(&["", "\n"])),
        }
    }

    /// make unit k of an application message fail in a random way; returns the fault tag
    pub fn break_unit(&mut self, m: &mut Msg, k: usize) -> &'static str {
        let last = k + 1 == m.units.len();
        let n = m.units[k].params.len();
        match self.rng.below(6) {
            0 => {
                // F1 handler-raised error
                let phase = match self.rng.below(3) {
                    0 => Phase::Before,
                    1 => Phase::AfterPulls,
                    _ => {
                        if n > 0 {
                            Phase::AfterPull(self.rng.usize_below(n))
                        } else {
                            Phase::AfterPulls
                        }
                    }
                };
                m.units[k].plan.fail = Some(PlanFail {
                    err: gen_err_spec(self.rng),
                    phase,
                });
                "F1_handler_error"
            }
            1 => {
                // F2 under-consume -> -108 (needs at least one param)
                if n == 0 {
                    m.units[k].params.push(Elem::Dec("1".into()));
                    m.units[k].hsep = B::from(" ");
                }
                let keep = self.rng.usize_below(m.units[k].params.len());
                m.units[k].plan.pulls.truncate(keep);
                "F2_arity"
            }
            2 => {
                // F2 over-consume -> -109
                m.units[k].plan.pulls.push(Pull {
                    req: true,
                    ty: PullTy::Tok,
                });
                "F2_arity"
            }
            3 => {
                // F4 undefined header
                let level: Vec<usize> = Vec::new();
                if let Some((colon, path, _)) = gen_undefined_header(self.rng, &self.tc, &level, k == 0) {
                    // make it absolute so that it does not depend on the previous unit
                    m.units[k].colon = colon || k > 0;
                    m.units[k].path = path;
                    if m.units[k].path[0].starts_with('*') {
                        m.units[k].colon = false;
                    }
                    "F4_undefined_header"
                } else {
                    m.units[k].plan.fail = Some(PlanFail {
                        err: gen_err_spec(self.rng),
                        phase: Phase::Before,
                    });
                    "F1_handler_error"
                }
            }
            4 => {
                let kind = *self.rng.pick(HEADER_FAULTS);
                let mut u = m.units[k].clone();
                if apply_header_fault(self.rng, &mut u, kind) {
                    m.units[k] = u;
                    "F3_syntax_fault"
                } else {
                    m.units[k].plan.fail = Some(PlanFail {
                        err: gen_err_spec(self.rng),
                        phase: Phase::Before,
                    });
                    "F1_handler_error"
                }
            }
            _ => {
                let kind = *self.rng.pick(PARAM_FAULTS);
                let mut u = m.units[k].clone();
                if apply_param_fault(self.rng, &mut u, kind, last, &mut self.uniq) {
                    m.units[k] = u;
                    if last {
                        m.end = B::new();
                    }
                    "F3_syntax_fault"
                } else {
                    m.units[k].plan.pulls.push(Pull {
                        req: true,
                        ty: PullTy::Tok,
                    });
                    "F2_arity"
                }
            }
        }
    }
}

pub fn queue_cfg(rng: &mut Rng) -> QueueCfg {
    if rng.chance(1, 3) {
        QueueCfg::Vec
    } else {
        QueueCfg::Array {
            cap: *rng.pick(&[1usize, 2, 3, 4, 5, 8, 16]),
        }
    }
}

pub fn advance_shadow(shadow: &mut ModelState, root: &crate::tree::MNode, s: &SendStep) {
    let p = predict(root, shadow, s, Reading::Condition);
    let mut st = p.state.clone();
    match &p.result {
        Ok(()) => {
            if p.out.as_ref().map(|o| !o.is_empty()).unwrap_or(false) {
                if let Some(q) = st.outq.get_mut(s.ctl as usize) {
                    *q = true;
                }
            }
        }
        Err(e) => {
            let code = match e {
                ExpErr::Exact(x) => x.code,
                ExpErr::Code(c) => *c,
                ExpErr::CommandClass => -100,
                ExpErr::ExecClass => -200,
                ExpErr::Either(..) => -108,
            };
            st.record_error(&ErrObs {
                code,
                msg: B::new(),
                ext: None,
            });
        }
    }
    st.oper.cond_unknown = false;
    st.ques.cond_unknown = false;
    st.prefill.clear();
    *shadow = st;
}

impl Prop for C13 {
    fn id(&self) -> &'static str {
        "C13"
    }
    fn level(&self) -> &'static str {
        "exploration"
    }
    fn rule(&self) -> &'static str {
        "one run = one instrument (real mandated tree + random application sub-tree, queue kind/capacity, 1-3 controllers) and a seeded history of 5-60 steps mixing valid messages, failing messages of every kind (handler error of any class, arity, undefined header, 488.2 syntax fault, type and range errors, in-flight corruption), *OPC and the queue/ESR queries in any position; after every message queue contents, ESR and query responses are compared with the status model. distinct_nontrivial = distinct (model queue length, ESR, message outcome class, queries present, overflow?) tuples"
    }
    fn assumptions(&self) -> Vec<String> {
        vec![
            "device wired as in scpi-contrib/examples/minimal_scpi.rs (handle_error -> push_error, cls -> scpi_cls, opc -> scpi_opc, stb -> scpi_stb)".into(),
            "application handlers have no status side effects of their own".into(),
            "which unit fails / whether a message fails is judged by C02/C04/C05/C06; here queue and ESR are compared relative to the result the call returned".into(),
        ]
    }
    fn runs(&self, tier: Tier) -> u64 {
        match tier {
            Tier::Quick => 200_000,
            Tier::Thorough => 1_200_000,
            Tier::Tiny => 50,
        }
    }
    fn required_probes(&self) -> Vec<String> {
        let v: Vec<&str> = vec![
            "failure_after_opc_same_message",
            "read_then_failure_same_message",
            "all_with_three_or_more_items",
            "overflow_by_failed_messages",
            "esr_bit_0",
            "esr_bit_2",
            "esr_bit_3",
            "esr_bit_4",
            "esr_bit_5",
            "esr_bit_7",
            "next_on_empty_queue",
            "extended_text_item_read_back",
            "response_buffer_exhausted_at_terminator",
            "response_buffer_exhausted_in_queue_query",
            "successful_query_with_failing_selftest",
            "no_error_item_queued_behind_another",
            "count_of_more_than_65535_items",
            "formatter_fails_in_message_start",
        ];
        v.into_iter().map(String::from).collect()
    }

    fn gen(&self, seed: u64, run: u64, tier: Tier) -> Trace {
        if run % 1000 == 13 && tier != Tier::Tiny {
            return backlog_trace(seed, run);
        }
        if run == 7 && tier != Tier::Tiny {
            return big_queue_trace(seed, run);
        }
        let mut rng = Rng::new(mix(seed, "C13", run));
        let deep = tier == Tier::Thorough && run % 16 == 15;
        // one tree per group of runs (bounded leak of real trees is irrelevant: model only here)
        let mut trng = Rng::new(mix(seed, "C13-tree", run / 64));
        let tree = gen_tree(&mut trng, true, 2, 3, 1);
        let controllers = *rng.pick(&[1u8, 1, 2, 3]);
        let cfg = Config {
            queue: queue_cfg(&mut rng),
            controllers,
            tree,
            plain488: false,
            no_mav: false,
        };
        let mut t = base_trace("C13", seed, run, "history", cfg.clone());
        let tc = TreeCtx::new(&cfg.tree);
        let mut shadow = ModelState {
            esr: 0,
            ese: 0,
            sre: 0,
            oper: RegModel {
                ptr: 0xffff,
                ..Default::default()
            },
            ques: RegModel {
                ptr: 0xffff,
                ..Default::default()
            },
            queue: QueueModel::new(&cfg.queue),
            tst_code: 0,
            outq: vec![false; controllers as usize],
            plain488: false,
            no_mav: false,
            prefill: Vec::new(),
        };
        // swarm weights
        let w_ok = *rng.pick(&[1u32, 3, 6]);
        let w_fail = *rng.pick(&[2u32, 4, 8]);
        let w_query = *rng.pick(&[1u32, 3, 5]);
        let w_opc = *rng.pick(&[0u32, 1, 2]);
        let w_mixed = *rng.pick(&[1u32, 2, 4]);
        let w_corrupt = *rng.pick(&[0u32, 1, 2]);
        let w_read = *rng.pick(&[1u32, 2]);
        let w_typeerr = *rng.pick(&[0u32, 1, 2]);
        let nmax = if deep { 250 } else { *rng.pick(&[10usize, 25, 60]) };
        let nsteps = rng.urange(5, nmax);
        let root = tc.root.clone();
        let mut g = HistGen {
            rng: &mut rng,
            tc,
            uniq: 0,
            shadow: shadow.clone(),
        };
        for _ in 0..nsteps {
            let ctl = g.rng.below(controllers as u64) as u8;
            let qlen = shadow.queue.items.len();
            let kind = g.rng.weighted(&[w_ok, w_fail, w_query + if qlen > 0 { 4 } else { 0 }, w_opc, w_mixed, w_corrupt, w_read, w_typeerr]);
            let mut corrupt = Vec::new();
            let msg: Msg = match kind {
                0 => g.app_msg(3),
                1 => {
                    let mut m = g.app_msg(4);
                    if m.units.is_empty() {
                        continue;
                    }
                    let k = g.rng.usize_below(m.units.len());
                    g.break_unit(&mut m, k);
                    m
                }
                2 => {
                    let c = *g.rng.pick(&[
                        Contrib::SystErrNext,
                        Contrib::SystErrNext,
                        Contrib::SystErrCount,
                        Contrib::SystErrAll,
                        Contrib::Esr,
                        Contrib::Tst,
                    ]);
                    if c == Contrib::Tst && g.rng.chance(1, 2) {
                        // the hardware actor decides what the next self test finds
                        let code = *g.rng.pick(&[0i16, -330, -240, 7, -100]);
                        shadow.tst_code = code;
                        t.steps.push(Step::Tst { code });
                    }
                    g.single(c, true, vec![])
                }
                3 => g.single(Contrib::Opc, false, vec![]),
                4 => {
                    // queries and *OPC mixed with app units, optionally with a failing unit
                    let n = g.rng.urange(2, 5);
                    let mut units: Vec<Unit> = Vec::new();
                    let mut level: Vec<usize> = Vec::new();
                    let mut app_idx: Vec<usize> = Vec::new();
                    for i in 0..n {
                        let u = if g.rng.chance(1, 2) {
                            let c = *g.rng.pick(&[
                                Contrib::SystErrNext,
                                Contrib::SystErrCount,
                                Contrib::SystErrAll,
                                Contrib::Esr,
                                Contrib::Opc,
                            ]);
                            let query = c != Contrib::Opc;
                            g.c(c, query, vec![], &level, i == 0)
                        } else {
                            match pick_sim_leaf(g.rng, &g.tc) {
                                Some(l) => {
                                    let l = l.clone();
                                    app_idx.push(i);
                                    gen_app_unit(g.rng, &g.tc, &l, &level, i == 0, &mut g.uniq, &UnitOpts::default())
                                }
                                None => g.c(Contrib::Esr, true, vec![], &level, i == 0),
                            }
                        };
                        if let Some(l) = level_after(&g.tc, &level, i == 0, u.colon, &u.path) {
                            level = l;
                        }
                        units.push(u);
                    }
                    let mut m = Msg {
                        units,
                        end: B::from(*g.rng.pick(&["", "\n"])),
                    };
                    if g.rng.chance(2, 3) {
                        // break one of the application units (if any)
                        let apps = app_idx.clone();
                        if !apps.is_empty() {
                            let k = *g.rng.pick(&apps);
                            // header rewrites would disturb later relative units: restrict to plan faults
                            match g.rng.below(3) {
                                0 => {
                                    m.units[k].plan.fail = Some(PlanFail {
                                        err: gen_err_spec(g.rng),
                                        phase: Phase::Before,
                                    })
                                }
                                1 => m.units[k].plan.pulls.push(Pull {
                                    req: true,
                                    ty: PullTy::Tok,
                                }),
                                _ => {
                                    m.units[k].plan.fail = Some(PlanFail {
                                        err: gen_err_spec(g.rng),
                                        phase: Phase::AfterPulls,
                                    })
                                }
                            }
                        }
                    }
                    m
                }
                5 => {
                    let m = g.app_msg(3);
                    let bytes = crate::msg::render(&m);
                    let other = crate::msg::render(&g.app_msg(2));
                    let n = g.rng.urange(1, 3);
                    corrupt = gen_corruption(g.rng, &bytes, n, Some(&other));
                    m
                }
                6 => {
                    t.steps.push(Step::Read { ctl });
                    if let Some(q) = shadow.outq.get_mut(ctl as usize) {
                        *q = false;
                    }
                    continue;
                }
                _ => {
                    // type / range errors on the mandated commands that take a value
                    let c = *g.rng.pick(&[Contrib::Ese, Contrib::Sre]);
                    let p = if g.rng.chance(1, 2) {
                        gen_reg_value(g.rng, 255).0
                    } else {
                        wrong_type_elem(g.rng)
                    };
                    let params = match g.rng.below(6) {
                        0 => vec![],
                        1 => vec![p, Elem::Dec("1".into())],
                        _ => vec![p],
                    };
                    g.single(c, false, params)
                }
            };
            if msg.units.is_empty() {
                continue;
            }
            let mut s = SendStep {
                ctl,
                fmt: FmtCfg::Vec,
                msg,
                corrupt,
            };
            // F6: the interface's output formatter refuses the new message right at message_start
            // (for example because the previous response was never read)
            if s.corrupt.is_empty() && g.rng.chance(1, 40) {
                s.fmt = FmtCfg::Faulty {
                    at: 0,
                    err: gen_err_spec(g.rng),
                    persistent: g.rng.chance(1, 2),
                };
            } else
            // F5: a bounded response buffer whose capacity is near the response length (so that
            // exhaustion can strike at the terminator or inside the last unit)
            if s.corrupt.is_empty() && g.rng.chance(1, 6) {
                let p = predict(&root, &shadow, &s, Reading::Condition);
                if let Some(o) = &p.out {
                    if !o.is_empty() && o.len() < 190 {
                        let len = o.len() as i64;
                        let cap = (len + *g.rng.pick(&[-1i64, -1, -2, 0, 1, -len / 2, -len])).max(0) as usize;
                        s.fmt = FmtCfg::Array { cap };
                    }
                }
            }
            advance_shadow(&mut shadow, &root, &s);
            t.steps.push(Step::Send(s));
        }
        t
    }

    fn check(&self, trace: &Trace, stats: &mut Stats) -> Vec<Finding> {
        struct H;
        impl StepHandler for H {
            fn on_send(
                &mut self,
                world: &mut World,
                before: &ModelState,
                i: usize,
                s: &SendStep,
                o: &SendObs,
                stats: &mut Stats,
                out: &mut Vec<Finding>,
            ) {
                check_send(world, before, i, s, o, stats, out)
            }
        }
        let f = drive(trace, stats, &mut H);
        if trace.run < 3 && stats.samples.is_empty() {
            let msgs: Vec<String> = trace
                .steps
                .iter()
                .take(10)
                .map(|s| match s {
                    Step::Send(x) => describe_msg(x),
                    other => format!("{:?}", other),
                })
                .collect();
            stats.samples.push(serde_json::to_string(&serde_json::json!({"queue": trace.config.queue, "controllers": trace.config.controllers, "history": msgs})).unwrap());
        }
        f
    }
}

fn neutral_bytes(b: &[u8]) -> bool {
    let up: Vec<u8> = b.to_ascii_uppercase();
    let has = |needle: &[u8]| up.windows(needle.len()).any(|w| w == needle);
    !b.contains(&b'*') && !has(b"SYST") && !has(b"STAT")
}

fn check_send(world: &mut World, before: &ModelState, i: usize, s: &SendStep, o: &SendObs, stats: &mut Stats, out: &mut Vec<Finding>) {
    if before.queue.items.len() > 65535 {
        stats.probe("count_of_more_than_65535_items");
    }
    if let FmtCfg::Faulty { at: 0, err, .. } = &s.fmt {
        // nothing of the message was executed: the device changes exactly by the injected error
        if o.fire.is_some() && s.corrupt.is_empty() {
            stats.probe("formatter_fails_in_message_start");
            stats.fault("F6_formatter_call_fails");
            let injected = spec_obs(err);
            if !matches!(&o.result, Err(e) if e.reports(&injected)) {
                out.push(Finding::new(
                    "C13.query_result",
                    "formatter_failure_at_message_start_not_returned",
                    i,
                    format!("{}: the formatter refused message_start with {:?} but run returned {:?}", describe_msg(s), injected, o.result),
                ));
                return;
            }
            let mut exp = before.clone();
            // (a formatter whose message is only started when the first query unit is reached:
            // the units in front of it have run)
            if let Some(fq) = s.msg.units.iter().position(|u| u.query) {
                if fq > 0 {
                    let mut s2 = s.clone();
                    s2.msg.units.truncate(fq);
                    s2.fmt = FmtCfg::Vec;
                    let p2 = predict(&world.root, before, &s2, Reading::Condition);
                    let mut e2 = p2.state.clone();
                    if let Err(e) = &o.result {
                        e2.record_error(e);
                    }
                    let now = world.adopt();
                    if p2.structural && p2.result.is_ok() && e2.esr == now.esr && e2.queue.items == now.queue.items && e2.ese == now.ese && e2.sre == now.sre {
                        exp = p2.state.clone();
                    }
                }
            }
            if let Err(e) = &o.result {
                exp.record_error(e);
            }
            compare_state(&exp, &world.snap(), i, s, o, "formatter failed in message_start", out);
        }
        return;
    }
    let pred = super::predict_seen_allow(world, before, s, o, Reading::Condition, A_PRESCAN_MSG | A_PRESCAN_UNIT);
    let after = world.snap();
    let qfull_before = before.queue.cap.map(|c| before.queue.items.len() >= c).unwrap_or(false);
    let outcome_class: u8 = match &o.result {
        Ok(()) => 0,
        Err(e) => class_bit(e.code).max(1),
    };
    let has_query = pred.executed.iter().any(|(_, c, _)| {
        matches!(c, Contrib::SystErrNext | Contrib::SystErrAll | Contrib::SystErrCount | Contrib::Esr)
    });
    stats.state(&[
        before.queue.items.len().min(20) as u8,
        before.esr,
        outcome_class,
        has_query as u8,
        qfull_before as u8,
    ]);

    if !pred.structural {
        // universal form (valid for status-neutral traffic only): the device changes exactly by
        // the returned error, or not at all
        if !neutral_bytes(&o.bytes) {
            stats.bump("skipped_non_neutral_corrupted");
            return;
        }
        let mut exp = before.clone();
        if let Err(e) = &o.result {
            exp.record_error(e);
        }
        compare_state(&exp, &after, i, s, o, "under in-flight corruption", out);
        return;
    }

    // is the returned result the one the structural oracle expects? (judged elsewhere; here we
    // only compare relative to a consistent result)
    let consistent = match (&pred.result, &o.result) {
        (Ok(()), Ok(())) => true,
        (Err(x), Err(e)) => x.accepts(e),
        _ => false,
    };
    if !consistent {
        if std::env::var("VERIF_DEBUG").is_ok() {
            eprintln!("DEBUG inconsistent: {} -> {:?}, predicted {:?} (fail unit {:?})", describe_msg(s), o.result, pred.result, pred.fail_unit);
        }
        if let Some(cmds) = pure_contrib(world, s) {
            if cmds.iter().all(|c| matches!(c, Contrib::SystErrNext | Contrib::SystErrAll | Contrib::SystErrCount | Contrib::Esr | Contrib::Opc | Contrib::Tst)) {
                let code = match &o.result {
                    Ok(()) => "ok".to_string(),
                    Err(e) => format!("{}", e.code).replace('-', "m"),
                };
                out.push(Finding::new(
                    "C13.query_result",
                    format!("queue_or_esr_message_returned_{}", code),
                    i,
                    format!("{} [{:?}] returned {:?}, expected {:?}", describe_msg(s), s.fmt, o.result, pred.result.as_ref().map_err(|e| e.describe())),
                ));
                return;
            }
        }
        stats.bump("skipped_result_not_as_predicted");
        return;
    }
    if !pred.state_known {
        stats.bump("skipped_state_unknown");
        return;
    }
    // probes / fault accounting
    for u in &s.msg.units {
        if u.plan.fail.is_some() {
            stats.fault("F1_handler_error");
        }
        if u.hfault.is_some() || u.pfault.is_some() {
            stats.fault("F3_syntax_fault");
        }
    }
    if let Err(e) = &o.result {
        if e.code == -225 && matches!(s.fmt, FmtCfg::Array { .. }) {
            stats.fault("F5_capacity");
            if pred.fail_unit.is_none() {
                stats.probe("response_buffer_exhausted_at_terminator");
            } else if has_query {
                stats.probe("response_buffer_exhausted_in_queue_query");
            }
        }
        match e.code {
            -113 => stats.fault("F4_undefined_header"),
            -108 | -109 => stats.fault("F2_arity"),
            _ => {}
        }
        if qfull_before {
            stats.fault("F8_queue_overflow");
            stats.probe("overflow_by_failed_messages");
        }
        let b = class_bit(e.code);
        for bit in 0..8 {
            if b & (1 << bit) != 0 {
                stats.probe(&format!("esr_bit_{}", bit));
            }
        }
        if pred.executed.iter().any(|(_, c, q)| *c == Contrib::Opc && !*q) {
            stats.probe("failure_after_opc_same_message");
        }
        if pred
            .executed
            .iter()
            .any(|(_, c, _)| matches!(c, Contrib::SystErrNext | Contrib::SystErrAll))
        {
            stats.probe("read_then_failure_same_message");
        }
    } else {
        if pred.executed.iter().any(|(_, c, q)| *c == Contrib::Opc && !*q) {
            stats.probe("esr_bit_0");
        }
        for (_, c, _) in &pred.executed {
            match c {
                Contrib::Tst if before.tst_code != 0 => stats.probe("successful_query_with_failing_selftest"),
                Contrib::SystErrAll if before.queue.items.iter().skip(1).any(|e| e.code == 0) => stats.probe("no_error_item_queued_behind_another"),
                Contrib::SystErrAll if before.queue.items.len() >= 3 => stats.probe("all_with_three_or_more_items"),
                Contrib::SystErrNext if before.queue.items.is_empty() => stats.probe("next_on_empty_queue"),
                Contrib::SystErrNext | Contrib::SystErrAll => {
                    if before.queue.items.iter().any(|e| e.ext.is_some()) {
                        stats.probe("extended_text_item_read_back")
                    }
                }
                _ => {}
            }
        }
    }

    let mut exp = pred.state.clone();
    if let Err(e) = &o.result {
        exp.record_error(e);
    }
    compare_state(&exp, &after, i, s, o, "", out);

    // responses of the queue / ESR queries
    if o.result.is_ok() && has_query {
        if let Some(expected) = &pred.out {
            if &o.out != expected {
                let sig = response_signature(&pred, expected, &o.out);
                out.push(Finding::new(
                    "C13.response",
                    sig,
                    i,
                    format!(
                        "message {} answered {:?}, expected {:?} (queue before: {:?}, ESR before: {})",
                        describe_msg(s),
                        B(o.out.clone()),
                        B(expected.clone()),
                        before.queue.items,
                        before.esr
                    ),
                ));
            }
        }
    }
}

fn response_signature(pred: &Pred, expected: &[u8], got: &[u8]) -> String {
    // attribute to the first query unit whose text differs
    let exp_units: Vec<&[u8]> = expected.strip_suffix(b"\n").unwrap_or(expected).split(|b| *b == b';').collect();
    let got_units: Vec<&[u8]> = got.strip_suffix(b"\n").unwrap_or(got).split(|b| *b == b';').collect();
    let queries: Vec<Contrib> = pred
        .unit_text
        .iter()
        .enumerate()
        .filter(|(_, t)| t.is_some())
        .map(|(i, _)| pred.executed.iter().find(|(u, _, _)| *u == i).map(|(_, c, _)| *c))
        .map(|c| c.unwrap_or(Contrib::Idn))
        .collect();
    if exp_units.len() == got_units.len() && exp_units.len() == queries.len() {
        for k in 0..exp_units.len() {
            if exp_units[k] != got_units[k] {
                return format!("wrong_answer_{:?}", queries[k]);
            }
        }
    }
    "response_differs".to_string()
}

fn compare_state(exp: &ModelState, after: &crate::exec::DevSnap, i: usize, s: &SendStep, o: &SendObs, ctx: &str, out: &mut Vec<Finding>) {
    let failed = o.result.is_err();
    if after.queue != exp.queue.items {
        let (inv, sig) = if failed {
            let sig = if after.queue.len() < exp.queue.items.len() {
                "error_not_queued"
            } else if after.queue.len() > exp.queue.items.len() {
                "more_than_the_error_queued"
            } else {
                "queued_item_differs_from_returned_error"
            };
            ("C13.queue_after_failed_message", sig)
        } else {
            let sig = if after.queue.len() > exp.queue.items.len() {
                "successful_message_left_extra_item"
            } else if after.queue.len() < exp.queue.items.len() {
                "successful_message_lost_item"
            } else {
                "successful_message_changed_item"
            };
            ("C13.queue_after_ok_message", sig)
        };
        out.push(Finding::new(
            inv,
            sig,
            i,
            format!(
                "message {} returned {:?}{}: queue is {:?}, expected {:?}",
                describe_msg(s),
                o.result,
                if ctx.is_empty() { String::new() } else { format!(" ({})", ctx) },
                after.queue,
                exp.queue.items
            ),
        ));
    }
    if after.num_errors != after.queue.len() || after.is_empty != after.queue.is_empty() {
        out.push(Finding::new(
            "C13.count",
            "count_disagrees_with_contents",
            i,
            format!("num_errors()={} is_empty()={} but queue holds {:?}", after.num_errors, after.is_empty, after.queue),
        ));
    }
    if after.esr != exp.esr {
        let missing = exp.esr & !after.esr;
        let extra = after.esr & !exp.esr;
        let sig = if failed {
            if missing != 0 && extra == 0 {
                "class_bit_not_set"
            } else if extra != 0 && missing == 0 {
                "extra_bit_set"
            } else {
                "wrong_bit_set"
            }
        } else if extra != 0 {
            "successful_message_set_bit"
        } else {
            "successful_message_cleared_bit"
        };
        out.push(Finding::new(
            if failed { "C13.esr_after_failed_message" } else { "C13.esr_after_ok_message" },
            sig,
            i,
            format!(
                "message {} returned {:?}{}: ESR is {}, expected {}",
                describe_msg(s),
                o.result,
                if ctx.is_empty() { String::new() } else { format!(" ({})", ctx) },
                after.esr,
                exp.esr
            ),
        ));
    }
}
