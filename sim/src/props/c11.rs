//! C11 - fixed-capacity, allocation-free operation: overflow is an error, never a panic.
//! Fault enumeration: for each sampled message the real `ArrayVec<u8, CAP>` formatter is run
//! at EVERY capacity 0..=len+1 from the same device snapshot; a counting global allocator armed
//! around `Node::run` (harness callbacks excluded) must read 0 in the alloc-free configuration.

use crate::exec::World;
use crate::gen::*;
use crate::model::*;
use crate::props::c13::{advance_shadow, HistGen};
use crate::props::c15::fresh_shadow;
use crate::props::*;
use crate::rng::{mix, Rng};
use crate::runner::{Finding, Prop, Tier};
use crate::stats::Stats;
use crate::tree::gen_tree;
use crate::types::*;

pub struct C11;

const SETUP_CAP: usize = 256;

impl Prop for C11 {
    fn id(&self) -> &'static str {
        "C11"
    }
    fn level(&self) -> &'static str {
        "fault_enumeration"
    }
    fn rule(&self) -> &'static str {
        "one run = one alloc-free instrument (ArrayVec<Error,N> queue, real mandated commands + non-allocating app handlers), 0-6 set-up messages (valid, failing, corrupted; all through ArrayVec<u8,256>, allocation counted) and one sampled message of 1-5 query/event units (app queries with headers/blocks/strings/numbers, SYST:ERR?/ALL?/COUNt?, *IDN?, *ESR?, STAT queries) that is executed once with Vec<u8> (reference R) and then with the real ArrayVec<u8,CAP> for EVERY CAP in 0..=|R|+1, each time from the same device snapshot. distinct_nontrivial = distinct (|R| class, CAP-|R| class, kind of the unit being written when exhaustion strikes) tuples"
    }
    fn assumptions(&self) -> Vec<String> {
        vec![
            "allocation is counted on the calling thread between entry and exit of Node::run, excluding the harness's own handler/logging code (which suspends the counter); application handlers do not allocate".into(),
            "capacities are limited to the generated dispatch table (0..=200, 256, 512, 1024, 4096); reference responses longer than 198 bytes are not swept".into(),
        ]
    }
    fn runs(&self, tier: Tier) -> u64 {
        match tier {
            Tier::Quick => 150_000,
            Tier::Thorough => 2_000_000,
            Tier::Tiny => 20,
        }
    }
    fn required_probes(&self) -> Vec<String> {
        let v: Vec<&str> = vec![
            "exhaustion_inside_block_header",
            "exhaustion_in_unit_separator",
            "exhaustion_at_terminator",
            "exhaustion_between_error_items",
            "capacity_zero",
            "exact_fit",
            "alloc_counted_on_failing_message",
            "alloc_counted_on_corrupted_message",
            "alloc_counted_on_typed_conversion",
            "response_buffer_reused",
            "response_buffer_reused_while_mav_is_set",
        ];
        v.into_iter().map(String::from).collect()
    }

    fn gen(&self, seed: u64, run: u64, _tier: Tier) -> Trace {
        let mut rng = Rng::new(mix(seed, "C11", run));
        let mut trng = Rng::new(mix(seed, "C11-tree", run / 64));
        let tree = gen_tree(&mut trng, true, 2, 3, 1);
        let cfg = Config {
            queue: QueueCfg::Array {
                cap: *rng.pick(&[1usize, 2, 3, 4, 8, 16]),
            },
            controllers: 1,
            tree,
            plain488: false,
            no_mav: false,
        };
        // one run in five hands in a response buffer that still holds an earlier response
        let mode = if rng.chance(1, 5) {
            // (`sweep_unread`: ... and the interface reports it as still unread: MAV is set)
            *rng.pick(&["sweep_prefill=17\n", "sweep_prefill=OLD,1\n", "sweep_prefill=x", "sweep_prefill=4242;4242\n", "sweep_unread=17\n", "sweep_unread=1;2"])
        } else {
            "sweep"
        };
        let mut t = base_trace("C11", seed, run, mode, cfg.clone());
        let tc = TreeCtx::new(&cfg.tree);
        let root = tc.root.clone();
        let mut shadow = fresh_shadow(&cfg);
        let nsetup = rng.usize_below(7);
        let mut g = HistGen {
            rng: &mut rng,
            tc,
            uniq: 0,
            shadow: shadow.clone(),
        };
        for _ in 0..nsetup {
            let mut corrupt = vec![];
            let msg = match g.rng.below(6) {
                4 | 5 => {
                    // parameter conversion must not allocate either: typed pulls over literals with
                    // suffixes, keywords, lists (may succeed or fail; only allocation is judged)
                    let mut u = g.uniq;
                    let m = crate::props::c01::hostile_msg(g.rng, &g.tc, &mut u);
                    g.uniq = u;
                    m
                }
                0 => g.app_msg(3),
                1 | 2 => {
                    let mut m = g.app_msg(3);
                    if m.units.is_empty() {
                        continue;
                    }
                    let k = g.rng.usize_below(m.units.len());
                    g.break_unit(&mut m, k);
                    m
                }
                _ => {
                    let m = g.app_msg(2);
                    let bytes = crate::msg::render(&m);
                    corrupt = gen_corruption(g.rng, &bytes, 1, None);
                    m
                }
            };
            if msg.units.is_empty() {
                continue;
            }
            let s = SendStep {
                ctl: 0,
                fmt: FmtCfg::Array { cap: SETUP_CAP },
                msg,
                corrupt,
            };
            advance_shadow(&mut shadow, &root, &s);
            t.steps.push(Step::Send(s));
            t.steps.push(Step::Read { ctl: 0 });
        }
        // the swept message
        let k = *g.rng.pick(&[1usize, 2, 3, 5]);
        let mut units = Vec::new();
        let mut level: Vec<usize> = Vec::new();
        for i in 0..k {
            let u = if g.rng.chance(1, 2) {
                let c = *g.rng.pick(&[
                    Contrib::SystErrAll,
                    Contrib::SystErrNext,
                    Contrib::SystErrCount,
                    Contrib::Idn,
                    Contrib::Esr,
                    Contrib::StatReg(Reg::Oper, RegCmd::Ptr),
                    Contrib::SystVersion,
                    Contrib::Wai,
                    Contrib::Stb,
                ]);
                g.c(c, c != Contrib::Wai, vec![], &level, i == 0)
            } else {
                match pick_sim_leaf(g.rng, &g.tc) {
                    Some(l) => {
                        let l = l.clone();
                        let mut u = gen_app_unit(
                            g.rng,
                            &g.tc,
                            &l,
                            &level,
                            i == 0,
                            &mut g.uniq,
                            &UnitOpts {
                                max_params: 2,
                                query_pct: 85,
                                max_data: 4,
                                ..Default::default()
                            },
                        );
                        // keep blocks/strings short so that the whole response stays sweepable
                        for d in u.plan.data.iter_mut() {
                            match d {
                                Datum::Arb(b) | Datum::Str(b) => b.0.truncate(12),
                                _ => {}
                            }
                        }
                        u
                    }
                    None => g.c(Contrib::Idn, true, vec![], &level, i == 0),
                }
            };
            if let Some(l) = level_after(&g.tc, &level, i == 0, u.colon, &u.path) {
                level = l;
            }
            units.push(u);
        }
        t.steps.push(Step::Send(SendStep {
            ctl: 0,
            fmt: FmtCfg::Vec,
            msg: Msg {
                units,
                end: B::from(*g.rng.pick(&["", "\n", ";"])),
            },
            corrupt: vec![],
        }));
        t
    }

    fn check(&self, trace: &Trace, stats: &mut Stats) -> Vec<Finding> {
        let mut out = Vec::new();
        let mut world = match World::new(&trace.config) {
            Some(w) => w,
            None => return vec![Finding::new("harness.config", "unsupported_config", 0, "config")],
        };
        let alloc_free = matches!(trace.config.queue, QueueCfg::Array { .. });
        let n = trace.steps.len();
        if n == 0 {
            return out;
        }
        // ---- set-up steps
        for (i, step) in trace.steps[..n - 1].iter().enumerate() {
            stats.bump("steps");
            match step {
                Step::Send(s) => {
                    let o = world.exec_send(s);
                    log_obs(stats, &o);
                    if !universal(&o, i, &mut out) {
                        return out;
                    }
                    if alloc_free && matches!(s.fmt, FmtCfg::Array { .. }) {
                        if o.result.is_err() {
                            stats.probe(if s.corrupt.is_empty() {
                                "alloc_counted_on_failing_message"
                            } else {
                                "alloc_counted_on_corrupted_message"
                            });
                        }
                        if o.calls.iter().any(|c| c.pulls.iter().any(|p| matches!(p, PullObs::Value(_)))) {
                            stats.probe("alloc_counted_on_typed_conversion");
                        }
                        if o.allocs != 0 {
                            out.push(Finding::new(
                                "C11.no_allocation",
                                if o.result.is_err() { "allocation_on_failing_message" } else { "allocation_on_successful_message" },
                                i,
                                format!("{} heap allocation(s) ({} bytes) while executing {} (result {:?})", o.allocs, o.alloc_bytes, describe_msg(s), o.result),
                            ));
                        }
                    }
                }
                Step::Read { ctl } => world.exec_read(*ctl),
                Step::Hw(op) => world.exec_hw(op),
                Step::Tst { code } => world.exec_tst(*code),
                Step::Q(_) | Step::Prefill(_) => {}
            }
        }
        // ---- the sweep
        let i = n - 1;
        let s = match &trace.steps[i] {
            Step::Send(s) => s,
            _ => return out,
        };
        world.exec_read(0);
        let snapshot = world.dev.clone_state();
        let before = world.adopt();
        let pred = predict(&world.root, &before, s, Reading::Condition);
        let unread = trace.mode.starts_with("sweep_unread=");
        let prefill: Vec<u8> = trace
            .mode
            .strip_prefix("sweep_prefill=")
            .or(trace.mode.strip_prefix("sweep_unread="))
            .map(|p| p.as_bytes().to_vec())
            .unwrap_or_default();
        if !prefill.is_empty() {
            stats.probe("response_buffer_reused");
        }
        if unread {
            stats.probe("response_buffer_reused_while_mav_is_set");
            world.outq[0] = prefill.clone();
        }
        world.prefill = prefill.clone();
        let reference = world.exec_send(s);
        log_obs(stats, &reference);
        if !universal(&reference, i, &mut out) {
            return out;
        }
        if reference.result.is_err() {
            stats.bump("reference_failed_skipped");
            return out;
        }
        let r = reference.out.clone();
        if r.len() > 198 {
            stats.bump("reference_too_long_skipped");
            return out;
        }
        // unit boundaries in R (for probes): cumulative end offsets of unit texts
        let mut bounds: Vec<(usize, usize, Option<Contrib>)> = Vec::new(); // (start, end, command)
        {
            let mut off = 0usize;
            for (ui, t) in pred.unit_text.iter().enumerate() {
                if let Some(t) = t {
                    if off > 0 {
                        off += 1; // ';'
                    }
                    let c = pred.executed.iter().find(|(u, _, _)| *u == ui).map(|(_, c, _)| *c);
                    bounds.push((off, off + t.len(), c));
                    off += t.len();
                }
            }
        }
        if !prefill.is_empty() || pred.out.as_deref() != Some(r.as_slice()) {
            // unit boundaries were computed for an empty buffer / the response is framed in
            // another (acceptable) way than the model's primary prediction: no position probes
            bounds.clear();
        }
        let msgd = if prefill.is_empty() {
            describe_msg(s)
        } else {
            format!("{} into a buffer already holding {:?}", describe_msg(s), B(prefill.clone()))
        };
        for cap in prefill.len()..=r.len() + 1 {
            if !crate::exec::array_cap_supported(cap) {
                continue;
            }
            stats.bump("steps");
            stats.fault("F5_capacity");
            world.dev = snapshot.clone_state();
            world.exec_read(0);
            if unread {
                world.outq[0] = prefill.clone();
            }
            world.prefill = prefill.clone();
            let mut sc = s.clone();
            sc.fmt = FmtCfg::Array { cap };
            let o = world.exec_send(&sc);
            log_obs(stats, &o);
            if !universal(&o, i, &mut out) {
                if let Some(f) = out.last_mut() {
                    f.detail = format!("{} [capacity {}]", f.detail, cap);
                }
                return out;
            }
            let n0 = out.len();
            hook_discipline(&o, i, &mut out);
            for f in out[n0..].iter_mut() {
                f.detail = format!("{} [capacity {}]", f.detail, cap);
            }
            // where does exhaustion strike?
            let lenc = (r.len() / 16) as u8;
            let delta = (cap as i64 - r.len() as i64).clamp(-3, 1) as i8;
            let mut at_kind = 0u8;
            if cap < r.len() {
                if cap == 0 {
                    stats.probe("capacity_zero");
                }
                if cap + 1 == r.len() {
                    stats.probe("exhaustion_at_terminator");
                    at_kind = 1;
                } else if let Some((st, en, c)) = bounds.iter().find(|(st, en, _)| cap < *en && cap + 1 >= *st) {
                    if cap + 1 == *st && *st > 0 {
                        stats.probe("exhaustion_in_unit_separator");
                        at_kind = 2;
                    } else {
                        at_kind = 3;
                        let inside = &r[*st..*en];
                        let rel = cap.saturating_sub(*st);
                        if let Some(h) = inside.iter().position(|b| *b == b'#') {
                            if rel > h && rel <= h + 3 {
                                stats.probe("exhaustion_inside_block_header");
                                at_kind = 4;
                            }
                        }
                        if *c == Some(Contrib::SystErrAll) && inside.get(rel) == Some(&b',') {
                            stats.probe("exhaustion_between_error_items");
                            at_kind = 5;
                        }
                    }
                }
            } else if cap == r.len() {
                stats.probe("exact_fit");
            }
            stats.state(&[lenc, delta as u8, at_kind]);
            if o.out.len() > cap {
                out.push(Finding::new(
                    "C11.capacity",
                    "wrote_beyond_capacity",
                    i,
                    format!("message {}: buffer holds {} bytes with capacity {}", msgd, o.out.len(), cap),
                ));
            }
            if cap >= r.len() {
                match &o.result {
                    Ok(()) => {
                        if o.out != r {
                            out.push(Finding::new(
                                "C11.same_bytes",
                                "fixed_buffer_response_differs_from_growable",
                                i,
                                format!("message {} capacity {}: {:?}, growable buffer gave {:?}", msgd, cap, B(o.out.clone()), B(r.clone())),
                            ));
                        }
                    }
                    Err(e) => out.push(Finding::new(
                        "C11.fits",
                        if cap == r.len() { "exact_fit_rejected" } else { "fitting_response_rejected" },
                        i,
                        format!("message {} capacity {} (response needs {}): failed with {:?}", msgd, cap, r.len(), e),
                    )),
                }
            } else {
                match &o.result {
                    Ok(()) => out.push(Finding::new(
                        "C11.overflow_is_error",
                        "overflow_not_reported",
                        i,
                        format!("message {} capacity {} (response needs {}): returned Ok with {:?}", msgd, cap, r.len(), B(o.out.clone())),
                    )),
                    Err(e) if e.code != -225 => out.push(Finding::new(
                        "C11.overflow_is_error",
                        format!("overflow_reported_as_{}", e.code).replace('-', "m"),
                        i,
                        format!("message {} capacity {} (response needs {}): failed with {:?}, expected -225", msgd, cap, r.len(), e),
                    )),
                    Err(_) => {}
                }
            }
            if alloc_free && o.allocs != 0 {
                out.push(Finding::new(
                    "C11.no_allocation",
                    if o.result.is_err() { "allocation_on_overflowing_message" } else { "allocation_on_successful_message" },
                    i,
                    format!("{} heap allocation(s) ({} bytes) while executing {} with capacity {}", o.allocs, o.alloc_bytes, msgd, cap),
                ));
            }
            if out.len() > 4 {
                break;
            }
        }
        if trace.run < 3 && stats.samples.is_empty() {
            stats.samples.push(
                serde_json::to_string(&serde_json::json!({"queue": trace.config.queue, "swept_message": msgd, "reference_response": format!("{:?}", B(r.clone())), "capacities": format!("0..={}", r.len() + 1)})).unwrap(),
            );
        }
        out
    }
}
