//! C02 - compound-command header paths resolve to exactly the SCPI-designated handler.
//! World: random trees x message histories (1-3 controllers); the real dispatcher's
//! handler-invocation log is compared unit by unit with a resolver written from the statement.

use crate::exec::{SendObs, World};
use crate::gen::*;
use crate::model::*;
use crate::props::structural::*;
use crate::props::*;
use crate::rng::{mix, Rng};
use crate::runner::{Finding, Prop, Tier};
use crate::stats::Stats;
use crate::tree::{gen_tree, resolve_ex, Resolved};
use crate::types::*;

pub struct C02;

impl Prop for C02 {
    fn id(&self) -> &'static str {
        "C02"
    }
    fn level(&self) -> &'static str {
        "exploration"
    }
    fn rule(&self) -> &'static str {
        "one run = one random command tree (depth <= 4, fan-out <= 5, default leaves incl. anonymous, default branches incl. nested and at the root, numeric-suffixed sibling families, the same name reused in different scopes, extra common commands) and a seeded history of 1-20 messages from 1-3 controllers, each of 1-8 units (one message in 60: a chain of 30-260 relative units) mixing absolute, relative and common headers, default nodes omitted or spelled, short/long form, random case, suffix 1 present/absent, with undefined headers (7 kinds) and handler errors at any unit and in-flight corruption of predecessor messages; the handler-invocation log (which handler, event/query form) and -113 results are compared with the model resolver. distinct_nontrivial = distinct (tree id, start level depth, header form, units resolved, outcome) tuples"
    }
    fn assumptions(&self) -> Vec<String> {
        vec![
            "trees respect the documented preconditions: at most one default leaf and one default branch per branch, names visible at one level pairwise non-matching, mnemonics <= 12 characters".into(),
            "headers are syntactically well formed (ill-formed headers belong to C04)".into(),
        ]
    }
    fn runs(&self, tier: Tier) -> u64 {
        match tier {
            Tier::Quick => 600_000,
            Tier::Thorough => 3_000_000,
            Tier::Tiny => 40,
        }
    }
    fn required_probes(&self) -> Vec<String> {
        let v: Vec<&str> = vec![
            "relative_after_omitted_default_branch",
            "two_messages_in_one_buffer",
            "second_message_ambiguous_if_continued",
            "relative_after_unit_ending_on_branch",
            "common_between_relative_units",
            "forty_relative_units_in_a_row",
            "leading_colon_after_deep_unit",
            "suffix1_elided_in_candidate",
            "suffix1_elided_in_definition",
            "nested_default_branches",
            "named_child_beside_default_leaf",
            "undefined_header_at_unit_2_or_later",
            "clean_message_after_corrupted_predecessor",
            "clean_message_after_failed_predecessor",
            "anonymous_default_leaf",
            "macro_built_tree",
        ];
        v.into_iter().map(String::from).collect()
    }

    fn gen(&self, seed: u64, run: u64, tier: Tier) -> Trace {
        let mut rng = Rng::new(mix(seed, "C02", run));
        let deep = tier == Tier::Thorough && run % 16 == 15;
        let mut trng = if deep {
            // few, large trees (they are leaked and shared through the tree cache)
            Rng::new(mix(seed, "C02-deeptree", run / 8192))
        } else {
            Rng::new(mix(seed, "C02-tree", run / 16))
        };
        let depth = if deep { 6 } else { *trng.pick(&[2usize, 3, 4]) };
        let fan = if deep { 6 } else { *trng.pick(&[2usize, 3, 5]) };
        let commons = trng.usize_below(4);
        let mut tree = gen_tree(&mut trng, false, depth, fan, commons);
        if !deep && (run / 16) % 10 == 9 {
            // a tree built at compile time with the crate's Root!/Branch!/Leaf! macros
            tree = TreeDesc {
                mandated: false,
                app: vec![],
                fixed: Some("macro".to_string()),
            };
        }
        let controllers = *rng.pick(&[1u8, 1, 2, 3]);
        let cfg = Config {
            queue: QueueCfg::Vec,
            controllers,
            tree,
            plain488: false,
            no_mav: false,
        };
        let mut t = base_trace("C02", seed, run, "history", cfg.clone());
        let tc = TreeCtx::new(&cfg.tree);
        if tc.sim_leaves.is_empty() {
            return t;
        }
        let nmsg = *rng.pick(&[1usize, 2, 5, 20]);
        let nmsg = rng.urange(1, nmsg);
        let p_undef = *rng.pick(&[0u64, 5, 15]);
        let p_fail = *rng.pick(&[0u64, 5, 10]);
        let p_corrupt = *rng.pick(&[0u64, 10, 25]);
        let p_common = *rng.pick(&[5u64, 20]);
        let omit = *rng.pick(&[20u64, 50, 80]);
        let mut uniq = 0u32;
        let commons: Vec<usize> = tc
            .sim_leaves
            .iter()
            .copied()
            .filter(|i| tc.leaves[*i].path.len() == 1 && tc.root.children()[tc.leaves[*i].path[0]].name.starts_with('*'))
            .collect();
        let non_commons: Vec<usize> = tc.sim_leaves.iter().copied().filter(|i| !commons.contains(i)).collect();
        for _ in 0..nmsg {
            let k = if deep { 24 } else { *rng.pick(&[1usize, 2, 3, 5, 8]) };
            let mut k = rng.urange(1, k);
            // one message in 60: a long chain of relative units (30..260 units, no leading colon
            // after the first one, now and then a common command in between) - "for messages of
            // any number of units"
            let long_rel = !non_commons.is_empty() && rng.chance(1, 60);
            if long_rel {
                k = *rng.pick(&[30usize, 31, 32, 33, 34, 40, 64, 65, 130, 260]);
            }
            let mut units = Vec::new();
            let mut level: Vec<usize> = Vec::new();
            for i in 0..k {
                let use_common = !commons.is_empty() && (non_commons.is_empty() || rng.chance(if long_rel { 3 } else { p_common }, 100));
                let mut li = if use_common { *rng.pick(&commons) } else { *rng.pick(&non_commons) };
                if long_rel && !use_common && i > 0 {
                    let below: Vec<usize> = non_commons
                        .iter()
                        .copied()
                        .filter(|j| tc.leaves[*j].path.len() > level.len() && tc.leaves[*j].path[..level.len()] == level[..])
                        .collect();
                    if !below.is_empty() {
                        li = *rng.pick(&below);
                    }
                }
                let leaf = tc.leaves[li].clone();
                let (mut colon, mut path) = spell_header(&mut rng, &tc, &leaf, &level, i == 0, omit);
                if long_rel && i > 0 {
                    for _ in 0..12 {
                        if !colon {
                            break;
                        }
                        let (c, p) = spell_header(&mut rng, &tc, &leaf, &level, false, omit);
                        colon = c;
                        path = p;
                    }
                }
                let query = rng.chance(1, 2);
                let mut u = Unit {
                    colon,
                    path,
                    query,
                    ..Default::default()
                };
                if query {
                    uniq += 1;
                    u.plan.data = vec![Datum::U64(uniq as u64)];
                }
                if rng.chance(1, 6) {
                    // a consumed parameter
                    let e = crate::msg::gen_elem(&mut rng, &mut uniq, false);
                    u.params = vec![e];
                    u.hsep = B::from(" ");
                    u.plan.pulls = vec![Pull {
                        req: true,
                        ty: PullTy::Tok,
                    }];
                }
                if i > 0 && rng.chance(1, 5) {
                    u.lead = crate::msg::gen_ws(&mut rng, false);
                }
                if long_rel && i + 1 < k {
                    // nothing fails in front of the last unit of a long chain
                } else if rng.chance(p_undef, 100) {
                    if let Some((c, p, _kind)) = gen_undefined_header(&mut rng, &tc, &level, i == 0) {
                        u.colon = c;
                        u.path = p;
                    }
                } else if rng.chance(p_fail, 100) {
                    u.plan.fail = Some(PlanFail {
                        err: gen_err_spec(&mut rng),
                        phase: Phase::Before,
                    });
                }
                if let Some(l) = level_after(&tc, &level, i == 0, u.colon, &u.path) {
                    level = l;
                }
                units.push(u);
            }
            let mut msg = Msg {
                units,
                end: B::from(*rng.pick(&["", "", "\n", " ", ";", "\r\n"])),
            };
            let mut corrupt = Vec::new();
            let clean = msg.units.iter().all(|u| u.plan.fail.is_none()) && level_chain_defined(&tc, &msg);
            // (the last unit carries no data: a decimal datum would take what follows as its suffix)
            let clean = clean && msg.units.last().map(|u| u.params.is_empty()).unwrap_or(false);
            if clean && rng.chance(1, 10) {
                // two messages arrive in one buffer (the interface did not split at the
                // terminator): the second one is a new message - it starts at the root, however
                // its first header is spelled (half the time: as if it continued the first)
                let li = if non_commons.is_empty() { *rng.pick(&commons) } else { *rng.pick(&non_commons) };
                let leaf = tc.leaves[li].clone();
                let continued = rng.chance(1, 2);
                let (_, path) = if continued {
                    spell_header(&mut rng, &tc, &leaf, &level, false, omit)
                } else {
                    spell_header(&mut rng, &tc, &leaf, &[], true, omit)
                };
                let second = Msg {
                    units: vec![Unit {
                        colon: false,
                        path,
                        query: rng.chance(1, 2),
                        ..Default::default()
                    }],
                    end: B::from(*rng.pick(&["", "\n"])),
                };
                msg.end = B::from(*rng.pick(&["\n", "\r\n", " \n"]));
                corrupt = vec![Corrupt::Splice {
                    tail: B(crate::msg::render(&second)),
                }];
            } else if rng.chance(p_corrupt, 100) {
                let bytes = crate::msg::render(&msg);
                let n = rng.urange(1, 2);
                corrupt = gen_corruption(&mut rng, &bytes, n, None);
            }
            t.steps.push(Step::Send(SendStep {
                ctl: rng.below(controllers as u64) as u8,
                fmt: FmtCfg::Vec,
                msg,
                corrupt,
            }));
        }
        t
    }

    fn check(&self, trace: &Trace, stats: &mut Stats) -> Vec<Finding> {
        let mut h = H02 {
            prev: Prev::None,
            tree_id: crate::rng::fnv1a(serde_json::to_string(&trace.config.tree).unwrap().as_bytes()),
        };
        let f = drive(trace, stats, &mut h);
        if trace.run < 3 && stats.samples.is_empty() {
            let msgs: Vec<String> = trace
                .steps
                .iter()
                .take(6)
                .map(|s| match s {
                    Step::Send(x) => describe_msg(x),
                    other => format!("{:?}", other),
                })
                .collect();
            stats.samples.push(serde_json::to_string(&serde_json::json!({"tree": trace.config.tree.app, "history": msgs})).unwrap());
        }
        f
    }
}

/// every unit of the message designates a node (no undefined header was generated)
fn level_chain_defined(tc: &TreeCtx, m: &Msg) -> bool {
    let mut level: Vec<usize> = Vec::new();
    for (i, u) in m.units.iter().enumerate() {
        match level_after(tc, &level, i == 0, u.colon, &u.path) {
            Some(l) => level = l,
            None => return false,
        }
    }
    true
}

#[derive(PartialEq)]
enum Prev {
    None,
    Clean,
    Failed,
    Corrupted,
}

struct H02 {
    prev: Prev,
    tree_id: u64,
}

impl StepHandler for H02 {
    fn on_send(&mut self, world: &mut World, before: &ModelState, i: usize, s: &SendStep, o: &SendObs, stats: &mut Stats, out: &mut Vec<Finding>) {
        if let ([Corrupt::Splice { tail }], true) = (s.corrupt.as_slice(), s.msg.end.as_slice().ends_with(b"\n")) {
            if let Some(m2) = crate::msg::parse_strict(tail.as_slice()) {
                self.prev = Prev::Corrupted;
                two_messages_in_one_buffer(world, before, i, s, m2, o, stats, out);
                return;
            }
        }
        let pred = super::predict_seen(world, before, s, o, Reading::Condition);
        if !pred.structural {
            self.prev = Prev::Corrupted;
            return;
        }
        // probes from the model's resolution
        let mut level: Vec<usize> = Vec::new();
        let mut prev_info: Option<crate::tree::ResolveInfo> = None;
        let mut prev_common = false;
        let mut prev_prev_relative = false;
        let mut rel_chain = 0usize;
        for (k, u) in s.msg.units.iter().enumerate() {
            let (r, info) = resolve_ex(&world.root, &level, k == 0, u.colon, &u.path);
            let common = u.path[0].starts_with('*');
            let relative = k > 0 && !u.colon && !common;
            if u.colon {
                rel_chain = 0;
            } else if relative && matches!(r, Resolved::Leaf { .. }) {
                rel_chain += 1;
                if rel_chain == 40 {
                    stats.probe("forty_relative_units_in_a_row");
                }
            }
            match &r {
                Resolved::Leaf { level: l, .. } => {
                    if relative {
                        if let Some(pi) = &prev_info {
                            if pi.implicit_default_branches > 0 {
                                stats.probe("relative_after_omitted_default_branch");
                            }
                            if pi.ended_on_branch {
                                stats.probe("relative_after_unit_ending_on_branch");
                            }
                        }
                        if prev_common && prev_prev_relative {
                            stats.probe("common_between_relative_units");
                        }
                    }
                    if u.colon && k > 0 && level.len() >= 2 {
                        stats.probe("leading_colon_after_deep_unit");
                    }
                    if info.suffix1_elided_in_candidate {
                        stats.probe("suffix1_elided_in_candidate");
                    }
                    if info.suffix1_elided_in_definition {
                        stats.probe("suffix1_elided_in_definition");
                    }
                    if info.implicit_default_branches + info.trailing_default_branches >= 2 {
                        stats.probe("nested_default_branches");
                    }
                    if info.named_child_beside_default_leaf {
                        stats.probe("named_child_beside_default_leaf");
                    }
                    stats.state(&[
                        (self.tree_id & 0xff) as u8,
                        ((self.tree_id >> 8) & 0xff) as u8,
                        level.len() as u8,
                        u.colon as u8,
                        common as u8,
                        u.path.len() as u8,
                        info.implicit_default_branches as u8,
                        info.ended_on_branch as u8,
                        u.query as u8,
                    ]);
                    if !common {
                        prev_prev_relative = relative || k == 0;
                    }
                    prev_common = common;
                    prev_info = Some(info);
                    level = l.clone();
                }
                Resolved::Undefined => {
                    stats.fault("F4_undefined_header");
                    if k >= 1 {
                        stats.probe("undefined_header_at_unit_2_or_later");
                    }
                    stats.state(&[(self.tree_id & 0xff) as u8, level.len() as u8, u.colon as u8, 0xEE, k.min(8) as u8]);
                    break;
                }
            }
        }
        if world.cfg.tree.fixed.is_some() {
            stats.probe("macro_built_tree");
        }
        for u in &s.msg.units {
            if u.path.iter().any(|p| p.is_empty()) {
                stats.probe("anonymous_default_leaf");
            }
            if u.plan.fail.is_some() {
                stats.fault("F1_handler_error");
            }
        }
        // anonymous default leaf reached?
        if pred.calls.iter().any(|c| anon_leaf(&world.cfg.tree, c.h)) {
            stats.probe("anonymous_default_leaf");
        }
        match self.prev {
            Prev::Corrupted => stats.probe("clean_message_after_corrupted_predecessor"),
            Prev::Failed => stats.probe("clean_message_after_failed_predecessor"),
            _ => {}
        }
        self.prev = if o.result.is_err() { Prev::Failed } else { Prev::Clean };

        if let Some(df) = cmp_dispatch(&pred, o) {
            out.push(Finding::new(
                "C02.dispatch",
                df.sig,
                i,
                format!("message {}: {} (result {:?})", describe_msg(s), df.detail, o.result),
            ));
            return;
        }
        // -113 exactly for a header that designates no node; otherwise the result the model says
        if let Some(df) = cmp_result(&pred, o) {
            let inv = if pred.result == Err(ExpErr::Code(-113)) {
                "C02.undefined_header"
            } else {
                "C02.result"
            };
            out.push(Finding::new(inv, df.sig, i, format!("message {}: {}", describe_msg(s), df.detail)));
        }
    }
}

fn anon_leaf(t: &TreeDesc, h: usize) -> bool {
    if t.fixed.is_some() {
        return h == 1 || h == 5;
    }
    fn rec(n: &TNode, h: usize) -> bool {
        match n {
            TNode::Leaf { name, h: x, .. } => *x == h && name.is_empty(),
            TNode::Branch { sub, .. } => sub.iter().any(|c| rec(c, h)),
        }
    }
    t.app.iter().any(|c| rec(c, h))
}

/// A buffer holding a complete, terminated message followed by a second one. The terminator ends
/// the first message, so either the buffer is refused there (command error, after the first
/// message ran - what the library does), or the second message is executed as what it is: a new
/// message, resolved from the root.
fn two_messages_in_one_buffer(world: &mut World, before: &ModelState, i: usize, s: &SendStep, m2: Msg, o: &SendObs, stats: &mut Stats, out: &mut Vec<Finding>) {
    let mut s1 = s.clone();
    s1.corrupt.clear();
    let p1 = predict(&world.root, before, &s1, Reading::Condition);
    let s2 = SendStep {
        ctl: s.ctl,
        fmt: s.fmt.clone(),
        msg: m2,
        corrupt: vec![],
    };
    let p2 = predict(&world.root, &p1.state, &s2, Reading::Condition);
    if !p1.structural || !p2.structural || p1.result.is_err() {
        return;
    }
    stats.probe("two_messages_in_one_buffer");
    // would the second message mean something else if it were (wrongly) taken as a continuation?
    let mut joined = s1.clone();
    joined.msg.units.extend(s2.msg.units.iter().cloned());
    let pj = predict(&world.root, before, &joined, Reading::Condition);
    if pj.structural && (pj.result.is_ok() != p2.result.is_ok() || pj.calls.iter().map(|c| c.h).collect::<Vec<_>>() != p1.calls.iter().chain(p2.calls.iter()).map(|c| c.h).collect::<Vec<_>>()) {
        stats.probe("second_message_ambiguous_if_continued");
    }
    // (refused while looking past the terminator: the last unit of the first message may or may
    // not have run)
    // (... or, with an implementation that lexes the whole buffer first, none of it)
    let refused = matches!(&o.result, Err(e) if is_command_error(e.code)) && o.calls.len() <= p1.calls.len();
    let mut comb = p1.clone();
    if !refused {
        let shift = s1.msg.units.len();
        comb.calls.extend(p2.calls.iter().cloned().map(|mut c| {
            c.unit += shift;
            c
        }));
        comb.result = p2.result.clone();
    } else {
        comb.result = Err(ExpErr::CommandClass);
        comb.calls.truncate(o.calls.len());
    }
    let msgd = format!("{:?} (two messages in one buffer)", B(o.bytes.clone()));
    if let Some(df) = cmp_dispatch(&comb, o) {
        out.push(Finding::new("C02.new_message_from_root", format!("second_message_in_buffer_{}", df.sig), i, format!("{}: {}", msgd, df.detail)));
        return;
    }
    if let Some(df) = cmp_result(&comb, o) {
        out.push(Finding::new("C02.new_message_from_root", format!("second_message_in_buffer_{}", df.sig), i, format!("{}: {}", msgd, df.detail)));
    }
}
