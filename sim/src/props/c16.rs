//! C16 - status byte and IEEE 488.2 common commands follow the 488.2 status model.
//! World: the full instrument; the status byte is a function of five independently evolving
//! pieces of state (error queue, ESR/ESE, two register-set summaries, MAV supplied by the
//! simulated transport's per-controller output queue) plus SRE.

use crate::exec::{SendObs, World};
use crate::gen::*;
use crate::model::*;
use crate::props::c13::{advance_shadow, gen_reg_value, queue_cfg, wrong_type_elem, HistGen};
use crate::props::c15::{compare_reg, first_diff_unit, fresh_shadow, gen_condition, gen_stat_msg};
use crate::props::*;
use crate::rng::{mix, Rng};
use crate::runner::{Finding, Prop, Tier};
use crate::stats::Stats;
use crate::tree::gen_tree;
use crate::types::*;

pub struct C16;

fn gen_common_msg(g: &mut HistGen, shadow: &ModelState) -> Msg {
    let n = *g.rng.pick(&[1usize, 1, 2, 3, 5]);
    let mut units = Vec::new();
    let mut level: Vec<usize> = Vec::new();
    for i in 0..n {
        let k = g.rng.below(20);
        let u = match k {
            0 | 1 | 2 | 3 => g.c(Contrib::Stb, true, vec![], &level, i == 0),
            4 | 5 => {
                // enable something that is (or may become) set
                let v = if g.rng.chance(1, 2) && shadow.esr != 0 {
                    Elem::Dec(format!("{}", shadow.esr))
                } else {
                    gen_reg_value(g.rng, 255).0
                };
                // (now and then with a surplus parameter: refused with -108, before or after the write)
                let ps = if g.rng.chance(1, 14) { vec![v, Elem::Dec("7".into())] } else { vec![v] };
                g.c(Contrib::Ese, false, ps, &level, i == 0)
            }
            6 => g.c(Contrib::Ese, true, vec![], &level, i == 0),
            7 | 8 => {
                let v = if g.rng.chance(1, 2) {
                    Elem::Dec(format!("{}", *g.rng.pick(&[4u32, 8, 16, 32, 128, 0xBC, 255, 64])))
                } else {
                    gen_reg_value(g.rng, 255).0
                };
                let ps = if g.rng.chance(1, 14) { vec![v, Elem::Dec("7".into())] } else { vec![v] };
                g.c(Contrib::Sre, false, ps, &level, i == 0)
            }
            9 => g.c(Contrib::Sre, true, vec![], &level, i == 0),
            10 => g.c(Contrib::Esr, true, vec![], &level, i == 0),
            11 => g.c(Contrib::Opc, false, vec![], &level, i == 0),
            12 => g.c(Contrib::Opc, true, vec![], &level, i == 0),
            13 => g.c(Contrib::Tst, true, vec![], &level, i == 0),
            14 => g.c(Contrib::Rst, false, vec![], &level, i == 0),
            15 => g.c(Contrib::Wai, false, vec![], &level, i == 0),
            16 => g.c(Contrib::Cls, false, vec![], &level, i == 0),
            17 => g.c(Contrib::Idn, true, vec![], &level, i == 0),
            18 => {
                let c = *g.rng.pick(&[Contrib::SystErrNext, Contrib::SystErrCount, Contrib::SystErrAll]);
                g.c(c, true, vec![], &level, i == 0)
            }
            _ => {
                let r = *g.rng.pick(&[Reg::Oper, Reg::Ques]);
                if g.rng.chance(1, 2) {
                    let v = if shadow.reg_ref(r).cond != 0 && g.rng.chance(2, 3) {
                        Elem::Dec(format!("{}", shadow.reg_ref(r).cond))
                    } else {
                        crate::props::c15::gen_u16_value(g.rng)
                    };
                    g.c(Contrib::StatReg(r, RegCmd::Enable), false, vec![v], &level, i == 0)
                } else {
                    g.c(Contrib::StatReg(r, RegCmd::Event), true, vec![], &level, i == 0)
                }
            }
        };
        if let Some(l) = level_after(&g.tc, &level, i == 0, u.colon, &u.path) {
            level = l;
        }
        units.push(u);
    }
    Msg {
        units,
        end: B::from(*g.rng.pick(&["", "", "\n"])),
    }
}

impl Prop for C16 {
    fn id(&self) -> &'static str {
        "C16"
    }
    fn level(&self) -> &'static str {
        "exploration"
    }
    fn rule(&self) -> &'static str {
        "one run = one instrument, 1-3 controllers (each with its own output queue => MAV) and a seeded history of 10-80 steps mixing common commands (*STB? *ESE *SRE *ESR? *OPC *OPC? *TST? *RST *WAI *CLS *IDN?), STATus/SYSTem commands, failing messages of every kind, hardware condition changes, self-test results, and controllers that do or do not read their previous response; after every message the response and all status registers are compared with the 488.2 status model. distinct_nontrivial = distinct (queue empty?, ESR&ESE != 0, OPER summary, QUES summary, MAV, SRE class, command kind) tuples"
    }
    fn assumptions(&self) -> Vec<String> {
        vec![
            "device wired as in scpi-contrib/examples/minimal_scpi.rs; MAV is passed in Context.mav by the transport stub (previous response of the same controller unread)".into(),
            "register-set 'summary' is accepted under either reading (enabled condition bits, as the crate documents, or enabled event bits, as SCPI-99 draws it) but the same reading throughout a run".into(),
            "STB bits 0 and 1 are device-designer bits: ignored".into(),
            "one run in six uses a plain IEEE 488.2 wiring (stb() = the trait default, no SCPI status structures reported): there only bits 4, 5 and 6 are compared".into(),
            "*ESE/*SRE values are NR1 or non-decimal literals (NR2/NR3 spellings and MIN/MAX keywords are value-level conversions, C07, n/a)".into(),
        ]
    }
    fn runs(&self, tier: Tier) -> u64 {
        match tier {
            Tier::Quick => 250_000,
            Tier::Thorough => 1_200_000,
            Tier::Tiny => 50,
        }
    }
    fn required_probes(&self) -> Vec<String> {
        let v: Vec<&str> = vec![
            "mss_raised_by_mav_alone",
            "cls_with_non_empty_queue",
            "stb_bit2_alone",
            "stb_bit3",
            "stb_bit4_alone",
            "stb_bit5",
            "stb_bit7",
            "esb_toggled_by_ese_write",
            "selftest_failing",
            "ese_out_of_range",
            "stb_with_mav_other_controller_unread",
            "plain_488_device_stb",
            "plain_488_mss_from_esb_only",
            "response_buffer_exhausted_at_terminator",
            "stb_on_interface_without_mav_after_a_response",
            "stb_read_into_a_reused_buffer_without_mav",
        ];
        v.into_iter().map(String::from).collect()
    }

    fn gen(&self, seed: u64, run: u64, tier: Tier) -> Trace {
        let mut rng = Rng::new(mix(seed, "C16", run));
        let deep = tier == Tier::Thorough && run % 16 == 15;
        let mut trng = Rng::new(mix(seed, "C16-tree", run / 64));
        let tree = gen_tree(&mut trng, true, 2, 2, 1);
        let controllers = *rng.pick(&[1u8, 1, 2, 3]);
        let cfg = Config {
            queue: queue_cfg(&mut rng),
            controllers,
            tree,
            // one run in six: a plain IEEE 488.2 device that keeps the trait's default stb()
            plain488: rng.chance(1, 6),
            // one run in eight: an interface without MAV support (Context reused, mav untouched)
            no_mav: rng.chance(1, 8),
        };
        let mut t = base_trace("C16", seed, run, "history", cfg.clone());
        let tc = TreeCtx::new(&cfg.tree);
        let root = tc.root.clone();
        let mut shadow = fresh_shadow(&cfg);
        let w = [
            *rng.pick(&[1u32, 2, 4]),  // hw
            *rng.pick(&[0u32, 1]),     // tst
            *rng.pick(&[1u32, 2, 4]),  // read
            *rng.pick(&[4u32, 8]),     // common msg
            *rng.pick(&[1u32, 3]),     // stat msg
            *rng.pick(&[1u32, 2, 4]),  // failing app msg
            *rng.pick(&[0u32, 1, 2]),  // ok app msg (query -> output => MAV)
            *rng.pick(&[0u32, 1]),     // ese/sre type & range errors
        ];
        let nmax = if deep { 400 } else { *rng.pick(&[15usize, 40, 80]) };
        let n = rng.urange(10, nmax);
        let mut g = HistGen {
            rng: &mut rng,
            tc,
            uniq: 0,
            shadow: shadow.clone(),
        };
        // one run in 24: an error burst from the device side (255 / 256 / 257 / 512 / 768 unread
        // items: counts a narrow counter would alias to 0), then *STB?
        let burst_at = if g.rng.chance(1, 24) { Some(g.rng.usize_below(n)) } else { None };
        for step_no in 0..n {
            if burst_at == Some(step_no) {
                let reps = *g.rng.pick(&[255usize, 256, 256, 257, 512, 768]);
                for k in 0..reps {
                    let e = ErrSpec {
                        code: 100 + (k % 3000) as i16,
                        ext: None,
                        msg: (k % 6) as u8,
                    };
                    shadow.queue.push(spec_obs(&e));
                    t.steps.push(Step::Q(QOp::Push(e)));
                }
                let s = SendStep {
                    ctl: 0,
                    fmt: FmtCfg::Vec,
                    msg: g.single(Contrib::Stb, true, vec![]),
                    corrupt: vec![],
                };
                advance_shadow(&mut shadow, &root, &s);
                t.steps.push(Step::Send(s));
            }
            let ctl = g.rng.below(controllers as u64) as u8;
            let msg = match g.rng.weighted(&w) {
                0 => {
                    let reg = *g.rng.pick(&[Reg::Oper, Reg::Ques]);
                    let op = crate::props::c15::gen_hw(g.rng, reg, shadow.reg_ref(reg).cond);
                    let target = op.target(shadow.reg_ref(reg).cond);
                    shadow.reg(reg).set_condition(target);
                    if op.op == HwKind::Enable {
                        shadow.reg(reg).enable = op.value;
                    }
                    t.steps.push(Step::Hw(op));
                    continue;
                }
                1 => {
                    let code = *g.rng.pick(&[0i16, 0, -330, -240, 7, -100, 300]);
                    shadow.tst_code = code;
                    t.steps.push(Step::Tst { code });
                    continue;
                }
                2 => {
                    if let Some(q) = shadow.outq.get_mut(ctl as usize) {
                        *q = false;
                    }
                    t.steps.push(Step::Read { ctl });
                    continue;
                }
                3 => gen_common_msg(&mut g, &shadow),
                4 => {
                    let mut u = g.uniq;
                    let m = gen_stat_msg(g.rng, &g.tc, &mut u, &shadow, true);
                    g.uniq = u;
                    m
                }
                5 => {
                    let mut m = g.app_msg(3);
                    if m.units.is_empty() {
                        continue;
                    }
                    let k = g.rng.usize_below(m.units.len());
                    g.break_unit(&mut m, k);
                    m
                }
                6 => g.app_msg(2),
                _ => {
                    let c = *g.rng.pick(&[Contrib::Ese, Contrib::Sre]);
                    let p = if g.rng.chance(2, 3) {
                        // out of range on purpose
                        let v = 256 + g.rng.below(1000);
                        match g.rng.below(3) {
                            0 => Elem::NonDec {
                                radix: 'H',
                                digits: format!("{:X}", v),
                            },
                            _ => Elem::Dec(format!("{}", v)),
                        }
                    } else {
                        wrong_type_elem(g.rng)
                    };
                    g.single(c, false, vec![p])
                }
            };
            if msg.units.is_empty() {
                continue;
            }
            if g.rng.chance(1, 12) {
                // the caller reuses its response buffer without emptying it (or collects the
                // responses of several messages in one buffer): that is not the interface
                // reporting message-available
                let b = *g.rng.pick(&[&b"0\n"[..], b"stale", b"1;2\n", b"\n", b"+17,\"x\"\n"]);
                shadow.prefill = b.to_vec();
                t.steps.push(Step::Prefill(B(b.to_vec())));
            }
            let mut s = SendStep {
                ctl,
                fmt: FmtCfg::Vec,
                msg,
                corrupt: vec![],
            };
            if g.rng.chance(1, 8) {
                let p = predict(&root, &shadow, &s, Reading::Condition);
                if let Some(o) = &p.out {
                    if !o.is_empty() && o.len() < 190 {
                        let len = o.len() as i64;
                        let cap = ((len + *g.rng.pick(&[-1i64, -1, -2, 0, 1, -len / 2])).max(0) as usize).max(shadow.prefill.len());
                        s.fmt = FmtCfg::Array { cap };
                    }
                }
            }
            advance_shadow(&mut shadow, &root, &s);
            t.steps.push(Step::Send(s));
        }
        t
    }

    fn check(&self, trace: &Trace, stats: &mut Stats) -> Vec<Finding> {
        let mut h = H16 {
            viable: vec![Reading::Condition, Reading::Event],
        };
        let f = drive(trace, stats, &mut h);
        if trace.run < 3 && stats.samples.is_empty() {
            let msgs: Vec<String> = trace
                .steps
                .iter()
                .take(12)
                .map(|s| match s {
                    Step::Send(x) => format!("ctl{} {}", x.ctl, describe_msg(x)),
                    other => format!("{:?}", other),
                })
                .collect();
            stats.samples.push(serde_json::to_string(&serde_json::json!({"controllers": trace.config.controllers, "queue": trace.config.queue, "history": msgs})).unwrap());
        }
        f
    }
}

struct H16 {
    viable: Vec<Reading>,
}

fn unit_contrib(world: &World, s: &SendStep, idx: usize) -> Option<Contrib> {
    use crate::tree::{resolve, Resolved, H};
    let mut level: Vec<usize> = Vec::new();
    for (i, u) in s.msg.units.iter().enumerate() {
        if u.hfault.is_some() {
            return None;
        }
        match resolve(&world.root, &level, i == 0, u.colon, &u.path) {
            Resolved::Leaf { h, level: l } => {
                level = l;
                if i == idx {
                    return match h {
                        H::Contrib(c) => Some(c),
                        _ => None,
                    };
                }
            }
            Resolved::Undefined => return None,
        }
    }
    None
}

impl StepHandler for H16 {
    /// a device event (condition change): the summary bits `*STB?` is about to report must follow
    /// the history of those events, so a lost or invented change shows here
    fn on_hw(&mut self, world: &World, _before: &ModelState, model: &ModelState, i: usize, op: &HwOp, _stats: &mut Stats, out: &mut Vec<Finding>) {
        if model.plain488 {
            return;
        }
        let dev = world.adopt();
        let differs = self.viable.iter().all(|r| match (model.summary(op.reg, *r), dev.summary(op.reg, *r)) {
            (Some(a), Some(b)) => a != b,
            _ => false,
        });
        if differs && !self.viable.is_empty() {
            let (m, d) = (model.reg_ref(op.reg), dev.reg_ref(op.reg));
            out.push(Finding::new(
                "C16.state",
                "summary_wrong_after_device_event",
                i,
                format!(
                    "{:?} after the hardware {:?} {:#06x}: condition/event/enable are {:#06x}/{:#06x}/{:#06x}, the history of condition changes gives {:#06x}/{:#06x}/{:#06x} (summary bit for *STB? differs)",
                    op.reg, op.op, op.value, d.cond, d.event, d.enable, m.cond, m.event, m.enable
                ),
            ));
        }
    }

    fn on_send(&mut self, world: &mut World, before: &ModelState, i: usize, s: &SendStep, o: &SendObs, stats: &mut Stats, out: &mut Vec<Finding>) {
        let preds: Vec<(Reading, Pred)> = self.viable.iter().map(|r| (*r, super::predict_seen(world, before, s, o, *r))).collect();
        let pred = &preds[0].1;
        if !pred.structural {
            return;
        }
        let consistent = match (&pred.result, &o.result) {
            (Ok(()), Ok(())) => true,
            (Err(x), Err(e)) => x.accepts(e),
            _ => false,
        };
        if !consistent {
            // `*ESE` / `*SRE` accept 0..255 (and nothing else)
            if let Some(fu) = pred.fail_unit.filter(|f| *f == 0) {
                if let Some(c @ (Contrib::Ese | Contrib::Sre)) = unit_contrib(world, s, fu) {
                    if !s.msg.units[fu].query && pred.result == Err(ExpErr::ExecClass) {
                        let sig = match &o.result {
                            Ok(()) => "out_of_range_value_accepted",
                            Err(e) if e.code == -108 => "out_of_range_value_accepted",
                            Err(_) => "out_of_range_value_not_an_execution_error",
                        };
                        out.push(Finding::new(
                            "C16.ese_sre_range",
                            sig,
                            i,
                            format!(
                                "{} returned {:?}; {:?} accepts 0..255 only (register now ESE={} SRE={})",
                                describe_msg(s),
                                o.result,
                                c,
                                world.dev.ese,
                                world.dev.sre
                            ),
                        ));
                        return;
                    }
                }
            }
            // a message made only of mandated commands whose outcome the statement fixes
            if let Some(cmds) = pure_contrib(world, s) {
                let first = cmds.first().map(|c| format!("{:?}", c)).unwrap_or_default();
                let code = match &o.result {
                    Ok(()) => "ok".to_string(),
                    Err(e) => format!("{}", e.code).replace('-', "m"),
                };
                out.push(Finding::new(
                    "C16.command_result",
                    format!("{}_message_returned_{}_expected_{}", first.split('(').next().unwrap_or(""), code, match &pred.result { Ok(()) => "ok".to_string(), Err(e) => crate::props::structural::short_exp(e) }),
                    i,
                    format!("{} returned {:?}, expected {:?} (self-test code {}, unit {:?})", describe_msg(s), o.result, pred.result.as_ref().map_err(|e| e.describe()), before.tst_code, pred.fail_unit),
                ));
                return;
            }
            stats.bump("skipped_result_not_as_predicted");
            return;
        }
        let mav = before.outq.get(s.ctl as usize).copied().unwrap_or(false);
        if !before.prefill.is_empty() && !mav && pred.executed.iter().any(|(_, c, q)| *c == Contrib::Stb && *q) {
            stats.probe("stb_read_into_a_reused_buffer_without_mav");
        }
        // coverage + probes
        for (ui, c, q) in &pred.executed {
            let sre_class = (before.sre != 0) as u8 + (before.sre & 0x10 != 0) as u8;
            stats.state(&[
                (!before.queue.items.is_empty()) as u8,
                (before.esr & before.ese != 0) as u8,
                (before.oper.cond & before.oper.enable & 0x7fff != 0) as u8,
                (before.ques.cond & before.ques.enable & 0x7fff != 0) as u8,
                mav as u8,
                sre_class,
                format!("{:?}{}", c, q).len() as u8,
                match c {
                    Contrib::Stb => 1,
                    Contrib::Ese => 2,
                    Contrib::Sre => 3,
                    Contrib::Esr => 4,
                    Contrib::Opc => 5,
                    Contrib::Tst => 6,
                    Contrib::Rst => 7,
                    Contrib::Wai => 8,
                    Contrib::Cls => 9,
                    Contrib::Idn => 10,
                    _ => 11,
                },
            ]);
            match c {
                Contrib::Cls => {
                    if !before.queue.items.is_empty() && *ui == 0 {
                        stats.probe("cls_with_non_empty_queue");
                    }
                }
                Contrib::Tst => {
                    if before.tst_code != 0 {
                        stats.probe("selftest_failing");
                    }
                }
                Contrib::Ese if !*q => {
                    if *ui == 0 && before.esr != 0 {
                        let was = before.esr & before.ese != 0;
                        let now = pred.state.esr & pred.state.ese != 0;
                        if was != now {
                            stats.probe("esb_toggled_by_ese_write");
                        }
                    }
                }
                Contrib::Stb if *ui == 0 && before.no_mav => {
                    if before.outq.iter().any(|x| *x) {
                        stats.probe("stb_on_interface_without_mav_after_a_response");
                    }
                }
                Contrib::Stb if *ui == 0 && before.plain488 => {
                    stats.probe("plain_488_device_stb");
                    if let Some(v) = before.stb(mav, Reading::Condition) {
                        if v & 0x60 == 0x60 && !mav {
                            stats.probe("plain_488_mss_from_esb_only");
                        }
                    }
                }
                Contrib::Stb if *ui == 0 => {
                    if let Some(v) = before.stb(mav, Reading::Condition) {
                        if v & 0xBC == 0x10 && before.sre & 0x10 != 0 {
                            stats.probe("mss_raised_by_mav_alone");
                        }
                        if v & 0xBC == 0x04 {
                            stats.probe("stb_bit2_alone");
                        }
                        if v & 0xBC == 0x10 {
                            stats.probe("stb_bit4_alone");
                        }
                        if v & 0x08 != 0 {
                            stats.probe("stb_bit3");
                        }
                        if v & 0x20 != 0 {
                            stats.probe("stb_bit5");
                        }
                        if v & 0x80 != 0 {
                            stats.probe("stb_bit7");
                        }
                        if !mav && before.outq.iter().any(|x| *x) {
                            stats.probe("stb_with_mav_other_controller_unread");
                        }
                    }
                    if mav {
                        stats.fault("F11_previous_response_unread");
                    }
                }
                _ => {}
            }
        }
        if let Err(e) = &o.result {
            if e.code == -225 && matches!(s.fmt, FmtCfg::Array { .. }) {
                stats.fault("F5_capacity");
                if pred.fail_unit.is_none() {
                    stats.probe("response_buffer_exhausted_at_terminator");
                }
            }
            if e.code == -222 {
                stats.probe("ese_out_of_range");
            }
            if before.queue.cap.map(|c| before.queue.items.len() >= c).unwrap_or(false) {
                stats.fault("F8_queue_overflow");
            }
        }
        if world.cfg.controllers > 1 {
            stats.fault("F13_multi_controller_interleaving");
        }

        // responses (under every still-viable reading of "summary")
        if o.result.is_ok() {
            let matching: Vec<Reading> = preds
                .iter()
                .filter(|(_, p)| p.out.as_ref().map(|x| x == &o.out).unwrap_or(true))
                .map(|(r, _)| *r)
                .collect();
            if matching.is_empty() {
                let exp = pred.out.clone().unwrap_or_default();
                let mut sig = first_diff_unit(pred, &exp, &o.out);
                if let Some((Some(Contrib::Stb), e, g)) = crate::props::c15::diff_unit(pred, &exp, &o.out) {
                    sig = stb_signature(&e, &g).unwrap_or(sig);
                }
                out.push(Finding::new(
                    "C16.response",
                    sig,
                    i,
                    format!(
                        "controller {} sent {} (MAV={}): answered {:?}, expected {:?}; state before: ESR={} ESE={} SRE={} queue_len={} OPER(cond={:#x},en={:#x},ev={:#x}) QUES(cond={:#x},en={:#x},ev={:#x})",
                        s.ctl,
                        describe_msg(s),
                        mav,
                        B(o.out.clone()),
                        B(exp),
                        before.esr,
                        before.ese,
                        before.sre,
                        before.queue.items.len(),
                        before.oper.cond,
                        before.oper.enable,
                        before.oper.event,
                        before.ques.cond,
                        before.ques.enable,
                        before.ques.event
                    ),
                ));
            } else if matching.len() < self.viable.len() {
                self.viable = matching;
            }
        }

        // state after the message
        let after = world.snap();
        let mut exp = pred.state.clone();
        if let Err(e) = &o.result {
            exp.record_error(e);
        }
        let names: Vec<String> = pred
            .executed
            .iter()
            .map(|(_, c, q)| match c {
                Contrib::StatReg(_, k) => format!("{:?}{}", k, if *q { "?" } else { "" }),
                c => format!("{:?}{}", c, if *q { "?" } else { "" }),
            })
            .collect();
        let ctx = ["Cls", "Opc", "Ese", "Sre", "Esr?", "Tst?", "Rst", "Wai", "StatPreset", "Stb?", "Opc?", "Ese?", "Sre?", "Idn?"]
            .iter()
            .find(|p| names.iter().any(|n| n == *p))
            .map(|p| p.trim_end_matches('?').to_string() + if p.ends_with('?') { "_query" } else { "" })
            .unwrap_or_else(|| if o.result.is_err() { "failed_message".to_string() } else { "message".to_string() });
        let detail = format!("after {} (result {:?})", describe_msg(s), o.result);
        let mut diff = |name: &str, e: u64, g: u64| {
            if e != g {
                out.push(Finding::new(
                    "C16.state",
                    format!("{}_wrong_after_{}", name, ctx),
                    i,
                    format!("{} is {}, expected {}; {}", name, g, e, detail),
                ));
            }
        };
        diff("esr", exp.esr as u64, after.esr as u64);
        diff("ese", exp.ese as u64, after.ese as u64);
        diff("sre", exp.sre as u64, after.sre as u64);
        if after.queue != exp.queue.items {
            out.push(Finding::new(
                "C16.state",
                format!("error_queue_wrong_after_{}", ctx),
                i,
                format!("error queue is {:?}, expected {:?}; {}", after.queue, exp.queue.items, detail),
            ));
        }
        compare_reg("C16.state", "OPERation", &exp.oper, &after.oper, &ctx, i, &detail, out);
        compare_reg("C16.state", "QUEStionable", &exp.ques, &after.ques, &ctx, i, &detail, out);
    }
}

fn stb_signature(exp: &[u8], got: &[u8]) -> Option<String> {
    // single *STB? answers only
    let p = |b: &[u8]| -> Option<u32> { std::str::from_utf8(b.strip_suffix(b"\n").unwrap_or(b)).ok()?.parse().ok() };
    let e = p(exp)?;
    let g = p(got)?;
    if e > 255 || g > 255 {
        return Some("stb_out_of_byte_range".into());
    }
    let e = e & 0xFC;
    let g = g & 0xFC;
    Some(format!("stb_bits_missing_{:#04x}_extra_{:#04x}", e & !g, g & !e))
}
