//! C05 - units run in order; the first error aborts the message and is reported once.
//! Fault enumeration: for each sampled well-formed message, every failure position x failure
//! kind is injected; the handler log and the error-hook log are the recorded history.

use crate::exec::{SendObs, World};
use crate::gen::*;
use crate::model::*;
use crate::msg::*;
use crate::props::structural::*;
use crate::props::*;
use crate::rng::{mix, Rng};
use crate::runner::{Finding, Prop, Tier};
use crate::stats::Stats;
use crate::tree::gen_tree;
use crate::types::*;

pub struct C05;

fn base_message(rng: &mut Rng, tc: &TreeCtx, uniq: &mut u32, mandated: bool) -> Msg {
    let k = *rng.pick(&[1usize, 2, 3, 4, 6, 8]);
    let k = rng.urange(1, k);
    let mut units = Vec::new();
    let mut level: Vec<usize> = Vec::new();
    for i in 0..k {
        let u = if mandated && rng.chance(1, 6) {
            let c = *rng.pick(&[Contrib::Idn, Contrib::Opc, Contrib::SystVersion, Contrib::Wai]);
            let query = c != Contrib::Wai;
            contrib_unit(rng, tc, c, query, vec![], &level, i == 0)
        } else {
            let leaf = pick_sim_leaf(rng, tc).unwrap().clone();
            let o = UnitOpts {
                max_params: 4,
                allow_indef_last: false,
                query_pct: 50,
                max_data: 3,
                fancy_ws: rng.chance(1, 2),
            };
            gen_app_unit(rng, tc, &leaf, &level, i == 0, uniq, &o)
        };
        if let Some(l) = level_after(tc, &level, i == 0, u.colon, &u.path) {
            level = l;
        }
        units.push(u);
    }
    Msg {
        units,
        end: B::from(*rng.pick(&["", "", "\n", ";"])),
    }
}

/// is unit `i` served by a SimHandler (its plan can be edited)?
fn is_app(tc: &TreeCtx, msg: &Msg, i: usize) -> bool {
    use crate::tree::{resolve, Resolved, H};
    let mut level: Vec<usize> = Vec::new();
    for (k, u) in msg.units.iter().enumerate() {
        match resolve(&tc.root, &level, k == 0, u.colon, &u.path) {
            Resolved::Leaf { h, level: l } => {
                level = l;
                if k == i {
                    return matches!(h, H::Sim(_));
                }
            }
            Resolved::Undefined => return false,
        }
    }
    false
}

fn send(msg: Msg, fmt: FmtCfg) -> Step {
    Step::Send(SendStep {
        ctl: 0,
        fmt,
        msg,
        corrupt: vec![],
    })
}

impl Prop for C05 {
    fn id(&self) -> &'static str {
        "C05"
    }
    fn level(&self) -> &'static str {
        "fault_enumeration"
    }
    fn rule(&self) -> &'static str {
        "one run = one sampled well-formed message of k <= 8 units (events and queries, 0-4 parameters, 1-3 data, optionally real mandated queries) executed fault-free and then once per injected failure: for EVERY unit position i, handler error at every phase (before pulls, after each pull, after pulls, after each datum) with codes of all classes, under- and over-consumption, one syntax fault in the header and one in the parameters, an undefined header; EVERY response capacity 0..len of the real ArrayVec formatter; EVERY formatter write-call index (transient and persistent, hook-based); plus double faults (a later unit that would also fail). distinct_nontrivial = distinct (k, failing position, fault kind, phase/capacity class) tuples"
    }
    fn assumptions(&self) -> Vec<String> {
        vec![
            "handlers propagate the first error they meet (pull error, latched formatter error from finish())".into(),
            "formatter write-call faults use the verif-hooks ResponseUnit constructor (no user can implement Formatter today)".into(),
            "for syntax faults inside the parameter part the failing unit's own handler may or may not have been entered (the statement only forbids handlers of later units)".into(),
        ]
    }
    fn runs(&self, tier: Tier) -> u64 {
        match tier {
            Tier::Quick => 10_000,
            Tier::Thorough => 150_000,
            Tier::Tiny => 20,
        }
    }
    fn required_probes(&self) -> Vec<String> {
        let v: Vec<&str> = vec![
            "failure_in_first_unit",
            "failure_in_middle_unit",
            "failure_in_last_unit",
            "transient_formatter_fault_inside_multi_datum_unit",
            "formatter_fault_in_message_end",
            "formatter_fault_in_unit_separator",
            "double_fault_first_wins",
            "capacity_fault_in_terminator",
            "formatter_fault_in_message_start",
            "empty_unit_between_units",
            "tolerant_handler_meets_lexical_error",
        ];
        v.into_iter().map(String::from).collect()
    }

    fn gen(&self, seed: u64, run: u64, _tier: Tier) -> Trace {
        let mut rng = Rng::new(mix(seed, "C05", run));
        let mut trng = Rng::new(mix(seed, "C05-tree", run / 32));
        let mandated = trng.chance(1, 3);
        let tree = gen_tree(&mut trng, mandated, 3, 3, 1);
        let cfg = Config {
            queue: QueueCfg::Vec,
            controllers: 1,
            tree,
            plain488: false,
            no_mav: false,
        };
        let mut t = base_trace("C05", seed, run, "enumeration", cfg.clone());
        let tc = TreeCtx::new(&cfg.tree);
        if tc.sim_leaves.is_empty() {
            return t;
        }
        let mut uniq = 0u32;
        let base = base_message(&mut rng, &tc, &mut uniq, mandated);
        let k = base.units.len();
        t.steps.push(send(base.clone(), FmtCfg::Vec));
        // ---- per position faults
        for i in 0..k {
            let app = is_app(&tc, &base, i);
            let last = i + 1 == k;
            if app {
                let u = &base.units[i];
                let mut phases = vec![Phase::Before, Phase::AfterPulls];
                for j in 0..u.plan.pulls.len() {
                    phases.push(Phase::AfterPull(j));
                }
                if u.query {
                    for d in 0..u.plan.data.len() {
                        phases.push(Phase::AfterDatum(d));
                    }
                }
                for ph in phases {
                    let mut m = base.clone();
                    m.units[i].plan.fail = Some(PlanFail {
                        err: gen_err_spec(&mut rng),
                        phase: ph,
                    });
                    t.steps.push(send(m, FmtCfg::Vec));
                }
                // F2 under / over
                if !u.params.is_empty() {
                    let mut m = base.clone();
                    let keep = rng.usize_below(u.params.len());
                    m.units[i].plan.pulls.truncate(keep);
                    t.steps.push(send(m, FmtCfg::Vec));
                }
                {
                    let mut m = base.clone();
                    m.units[i].plan.pulls.push(Pull {
                        req: true,
                        ty: PullTy::Tok,
                    });
                    t.steps.push(send(m, FmtCfg::Vec));
                }
                // F3 in parameters
                for _ in 0..2 {
                    let kind = *rng.pick(PARAM_FAULTS);
                    let mut m = base.clone();
                    let mut uu = m.units[i].clone();
                    if apply_param_fault(&mut rng, &mut uu, kind, last, &mut uniq) {
                        m.units[i] = uu;
                        if last {
                            m.end = B::new();
                        }
                        t.steps.push(send(m, FmtCfg::Vec));
                        break;
                    }
                }
                // F3 in parameters met by a tolerant handler (it notes pull errors and carries on):
                // the lexical error must still abort the message
                {
                    let kind = *rng.pick(ELEMENT_FAULTS);
                    let mut m = base.clone();
                    let mut uu = m.units[i].clone();
                    if apply_param_fault(&mut rng, &mut uu, kind, last, &mut uniq) {
                        uu.plan.swallow = true;
                        // pull everything that is there now, and one more
                        uu.plan.pulls = (0..uu.params.len() + 1)
                            .map(|_| Pull {
                                req: rng.chance(1, 2),
                                ty: PullTy::Tok,
                            })
                            .collect();
                        m.units[i] = uu;
                        if last {
                            m.end = B::new();
                        }
                        t.steps.push(send(m, FmtCfg::Vec));
                    }
                }
            }
            // F3 in header
            for _ in 0..3 {
                let kind = *rng.pick(HEADER_FAULTS);
                let mut m = base.clone();
                let mut uu = m.units[i].clone();
                if apply_header_fault(&mut rng, &mut uu, kind) {
                    m.units[i] = uu;
                    t.steps.push(send(m, FmtCfg::Vec));
                    break;
                }
            }
            // F4: undefined header (absolute, so that later units are unaffected by construction)
            if let Some((colon, path, _)) = gen_undefined_header(&mut rng, &tc, &[], i == 0) {
                let mut m = base.clone();
                m.units[i].colon = (colon || i > 0) && !path[0].starts_with('*');
                m.units[i].path = path;
                t.steps.push(send(m, FmtCfg::Vec));
            }
            // an empty unit in front of unit i (`A;;B`): whether 488.2 allows it is not settled here,
            // but everything in front of it must have been executed when it is reached
            if i > 0 {
                let mut m = base.clone();
                m.units.insert(
                    i,
                    Unit {
                        hfault: Some(("empty_unit".to_string(), B::new())),
                        lead: if rng.chance(1, 3) { B::from(" ") } else { B::new() },
                        ..Default::default()
                    },
                );
                t.steps.push(send(m, FmtCfg::Vec));
            }
            // double fault: unit i fails by handler error, a later app unit would fail too
            if app && i + 1 < k {
                let later: Vec<usize> = ((i + 1)..k).filter(|x| is_app(&tc, &base, *x)).collect();
                if !later.is_empty() {
                    let j = *rng.pick(&later);
                    let mut m = base.clone();
                    m.units[i].plan.fail = Some(PlanFail {
                        err: gen_err_spec(&mut rng),
                        phase: Phase::AfterPulls,
                    });
                    m.units[j].plan.fail = Some(PlanFail {
                        err: gen_err_spec(&mut rng),
                        phase: Phase::Before,
                    });
                    t.steps.push(send(m, FmtCfg::Vec));
                }
            }
        }
        // ---- F5: every capacity (length from the framing model; data texts are stand-alone formatted)
        let est_len: usize = {
            let st = crate::props::c15::fresh_shadow(&cfg);
            let p = predict(
                &tc.root,
                &st,
                &SendStep {
                    ctl: 0,
                    fmt: FmtCfg::Vec,
                    msg: base.clone(),
                    corrupt: vec![],
                },
                Reading::Condition,
            );
            p.out.map(|o| o.len()).unwrap_or(0)
        };
        if est_len > 0 && est_len <= 190 {
            for cap in 0..=est_len + 1 {
                t.steps.push(send(base.clone(), FmtCfg::Array { cap }));
            }
        }
        // ---- F6: every formatter write-call index
        let mut est_calls = 2usize;
        for u in &base.units {
            if u.query {
                est_calls += 3 + 2 * u.plan.hdr.len() + 5 * u.plan.data.len().max(4);
            }
        }
        for at in 0..est_calls.min(90) {
            for persistent in [false, true] {
                t.steps.push(send(
                    base.clone(),
                    FmtCfg::Faulty {
                        at,
                        err: gen_err_spec(&mut rng),
                        persistent,
                    },
                ));
            }
        }
        t
    }

    fn check(&self, trace: &Trace, stats: &mut Stats) -> Vec<Finding> {
        struct H;
        impl StepHandler for H {
            fn on_send(&mut self, world: &mut World, before: &ModelState, i: usize, s: &SendStep, o: &SendObs, stats: &mut Stats, out: &mut Vec<Finding>) {
                let n0 = out.len();
                hook_discipline(o, i, out);
                if out.len() > n0 {
                    for f in out[n0..].iter_mut() {
                        f.detail = format!("{} [formatter {:?}]", f.detail, s.fmt);
                    }
                    return;
                }
                let mut pred = super::predict_seen_allow(world, before, s, o, Reading::Condition, A_PRESCAN_UNIT | A_TSTQ);
                if !pred.structural {
                    return;
                }
                // an empty unit that the implementation accepts: judge as if it were not there
                if o.result.is_ok() || o.calls.len() > pred.calls.len() {
                    if let Some(pos) = s.msg.units.iter().position(|u| matches!(&u.hfault, Some((k, _)) if k == "empty_unit")) {
                        let mut s2 = s.clone();
                        s2.msg.units.remove(pos);
                        pred = predict(&world.root, before, &s2, Reading::Condition);
                        stats.bump("empty_unit_accepted");
                    }
                }
                if s.msg.units.iter().any(|u| matches!(&u.hfault, Some((k, _)) if k == "empty_unit")) {
                    stats.probe("empty_unit_between_units");
                }
                let k = s.msg.units.len();
                let mut kind: &str = "none";
                let mut pos: Option<usize> = pred.fail_unit;
                let mut sub: u8 = 0;
                for (ui, u) in s.msg.units.iter().enumerate() {
                    if let Some(f) = &u.plan.fail {
                        if pred.fail_unit == Some(ui) {
                            kind = "F1_handler_error";
                            sub = match f.phase {
                                Phase::Before => 0,
                                Phase::AfterPull(_) => 1,
                                Phase::AfterPulls => 2,
                                Phase::AfterDatum(_) => 3,
                            };
                        }
                    }
                    if u.hfault.is_some() && pred.fail_unit == Some(ui) {
                        kind = "F3_syntax_fault_header";
                    }
                    if u.pfault.is_some() && pred.fail_unit == Some(ui) {
                        kind = "F3_syntax_fault_parameters";
                    }
                }
                if kind == "none" {
                    match &pred.result {
                        Err(ExpErr::Code(-113)) => kind = "F4_undefined_header",
                        Err(ExpErr::Code(-108)) | Err(ExpErr::Code(-109)) => kind = "F2_arity",
                        Err(ExpErr::Code(-225)) => {
                            kind = "F5_capacity";
                            if pred.fail_unit.is_none() {
                                stats.probe("capacity_fault_in_terminator");
                            }
                        }
                        _ => {}
                    }
                }
                if s.msg.units.iter().any(|u| u.plan.swallow && u.pfault.is_some()) {
                    stats.probe("tolerant_handler_meets_lexical_error");
                }
                if s.msg.units.iter().filter(|u| u.plan.fail.is_some()).count() >= 2 {
                    stats.probe("double_fault_first_wins");
                }
                // F6: hook-based formatter faults
                if let FmtCfg::Faulty { err, persistent, .. } = &s.fmt {
                    match &o.fire {
                        None => {
                            // fault index beyond the calls made: behaves like the fault-free run
                        }
                        // the message fails by itself, exactly as predicted without the formatter
                        // fault, and the formatter was only called again while it was being aborted
                        // (to terminate or discard the partial response): the message's own error
                        // stands; judged below like the fault-free run
                        Some(fire) if fire.call == "message_end" && fire.sim_calls_at_fire == o.calls.len() && matches!((&pred.result, &o.result), (Err(x), Err(e)) if x.accepts(e)) => {
                            stats.bump("formatter_fault_after_the_message_had_failed");
                        }
                        Some(fire) => {
                            stats.fault("F6_formatter_call_fails");
                            match fire.call {
                                "message_end" => stats.probe("formatter_fault_in_message_end"),
                                "message_start" => stats.probe("formatter_fault_in_message_start"),
                                "response_unit" => stats.probe("formatter_fault_in_unit_separator"),
                                _ => {}
                            }
                            if !*persistent {
                                // inside a unit with several data?
                                if let Some(c) = o.calls.last() {
                                    if c.query && c.data_written >= 2 && fire.call.starts_with("push") {
                                        stats.probe("transient_formatter_fault_inside_multi_datum_unit");
                                    }
                                }
                            }
                            stats.state(&[k as u8, 0xF6, fire.sim_calls_at_fire as u8, *persistent as u8, fire.call.len() as u8]);
                            let injected = spec_obs(err);
                            let msgd = describe_msg(s);
                            match &o.result {
                                Ok(()) => out.push(Finding::new(
                                    "C05.formatter_failure_aborts",
                                    if *persistent { "persistent_formatter_failure_swallowed" } else { "transient_formatter_failure_swallowed" },
                                    i,
                                    format!("message {}: formatter call #{} ({}) failed with {:?} but run returned Ok", msgd, fire_index(&s.fmt), fire.call, injected),
                                )),
                                // (the formatter refused to open the response unit and the handler
                                // of that very unit was entered all the same: its own error may
                                // be the one reported - no property says which of the two)
                                Err(e)
                                    if fire.call == "response_unit"
                                        && o.calls.len() == fire.sim_calls_at_fire + 1
                                        && o.calls.last().and_then(|c| c.ret.as_ref()) == Some(e) => {}
                                Err(e) if !e.reports(&injected) => out.push(Finding::new(
                                    "C05.returns_first_error",
                                    "formatter_error_replaced",
                                    i,
                                    format!("message {}: formatter call ({}) failed with {:?} but run returned {:?}", msgd, fire.call, injected, e),
                                )),
                                Err(_) => {}
                            }
                            // (... the handler of the unit whose response unit could not be opened
                            // may still be entered; no handler of a LATER unit)
                            let entered_failing_unit = fire.call == "response_unit" && o.calls.len() == fire.sim_calls_at_fire + 1;
                            if o.calls.len() != fire.sim_calls_at_fire && !entered_failing_unit {
                                out.push(Finding::new(
                                    "C05.abort",
                                    "handler_ran_after_formatter_failure",
                                    i,
                                    format!(
                                        "message {}: {} handlers had been entered when the formatter failed in {}, {} were entered in total",
                                        msgd,
                                        fire.sim_calls_at_fire,
                                        fire.call,
                                        o.calls.len()
                                    ),
                                ));
                            }
                            // prefix in order, each at most once
                            for (x, c) in o.calls.iter().enumerate() {
                                match pred.calls.get(x) {
                                    Some(e) if e.h == c.h && e.query == c.query => {}
                                    _ => {
                                        out.push(Finding::new(
                                            "C05.order",
                                            "handlers_not_a_prefix_in_order",
                                            i,
                                            format!("message {}: invoked {} expected a prefix of {}", msgd, fmt_calls(&o.calls), fmt_exp_calls(&pred.calls)),
                                        ));
                                        break;
                                    }
                                }
                            }
                            return;
                        }
                    }
                }
                if let Some(p) = pos.take() {
                    stats.fault(kind);
                    if p == 0 {
                        stats.probe("failure_in_first_unit");
                    }
                    if p + 1 == k {
                        stats.probe("failure_in_last_unit");
                    }
                    if p > 0 && p + 1 < k {
                        stats.probe("failure_in_middle_unit");
                    }
                    let cap_class = match &s.fmt {
                        FmtCfg::Array { cap } => (*cap).min(40) as u8,
                        _ => 0xff,
                    };
                    stats.state(&[k as u8, p as u8, kind.len() as u8, kind.as_bytes()[1], sub, cap_class]);
                } else if pred.result.is_err() {
                    stats.fault(kind);
                    stats.state(&[k as u8, 0xfe, kind.len() as u8]);
                } else {
                    stats.state(&[k as u8, 0xfd]);
                }
                let msgd = describe_msg(s);
                if let Some(df) = cmp_dispatch(&pred, o) {
                    let inv = match df.sig.as_str() {
                        "handler_ran_after_failing_unit" => "C05.abort",
                        _ => "C05.order",
                    };
                    out.push(Finding::new(inv, df.sig, i, format!("message {} [{:?}]: {}", msgd, s.fmt, df.detail)));
                    return;
                }
                // each handler at most once: implied by the sequence comparison above.
                if let Some(df) = cmp_result(&pred, o) {
                    let inv = match (&pred.result, &o.result) {
                        (Err(_), Ok(())) => "C05.failure_returned",
                        (Ok(()), Err(_)) => "C05.spurious_failure",
                        _ => "C05.returns_first_error",
                    };
                    out.push(Finding::new(inv, df.sig, i, format!("message {} [{:?}]: {}", msgd, s.fmt, df.detail)));
                }
            }
        }
        let f = drive(trace, stats, &mut H);
        if trace.run < 2 && stats.samples.is_empty() {
            let first = trace.steps.iter().find_map(|s| match s {
                Step::Send(x) => Some(describe_msg(x)),
                _ => None,
            });
            let variants: Vec<String> = trace
                .steps
                .iter()
                .skip(1)
                .take(8)
                .filter_map(|s| match s {
                    Step::Send(x) => Some(format!("{:?} {}", x.fmt, describe_msg(x))),
                    _ => None,
                })
                .collect();
            stats.samples.push(serde_json::to_string(&serde_json::json!({"base": first, "fault_variants_total": trace.steps.len() - 1, "first_variants": variants})).unwrap());
        }
        f
    }
}

fn fire_index(f: &FmtCfg) -> usize {
    match f {
        FmtCfg::Faulty { at, .. } => *at,
        _ => 0,
    }
}
