//! C05 (stub, to be filled in)
use crate::props::*;
use crate::runner::{Finding, Prop, Tier};
use crate::stats::Stats;
use crate::types::*;

pub struct C05;

impl Prop for C05 {
    fn id(&self) -> &'static str { "C05" }
    fn level(&self) -> &'static str { "exploration" }
    fn rule(&self) -> &'static str { "" }
    fn assumptions(&self) -> Vec<String> { vec![] }
    fn runs(&self, _tier: Tier) -> u64 { 0 }
    fn gen(&self, seed: u64, run: u64, _tier: Tier) -> Trace {
        base_trace("C05", seed, run, "", Config { queue: QueueCfg::Vec, controllers: 1, tree: TreeDesc::default() })
    }
    fn check(&self, _trace: &Trace, _stats: &mut Stats) -> Vec<Finding> { vec![] }
}
