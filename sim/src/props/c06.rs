//! C06 - a handler sees exactly its own unit's parameters; wrong arity is an error.
//! World: handlers are simulator actors whose pull pattern (required / optional, how many) is
//! scheduled per unit; every datum of a message is unique so leakage across `;` is detectable.

use crate::exec::{SendObs, World};
use crate::gen::*;
use crate::model::*;
use crate::msg::*;
use crate::props::structural::*;
use crate::props::*;
use crate::rng::{mix, Rng};
use crate::runner::{Finding, Prop, Tier};
use crate::stats::Stats;
use crate::tree::gen_tree;
use crate::types::*;

pub struct C06;

impl Prop for C06 {
    fn id(&self) -> &'static str {
        "C06"
    }
    fn level(&self) -> &'static str {
        "exploration"
    }
    fn rule(&self) -> &'static str {
        "one run = one random tree and 1-6 messages of 1-4 units; every unit carries n in 0..6 unique data elements of all seven types (indefinite block only last; one unit in ~100 is a long list of 254..513 elements) and its handler pulls m in 0..n+2 parameters with a seeded mix of required/optional pulls, at first/middle/last unit, before ';', white space + ';', NL, white space or end of input, events and queries; pulls, -108/-109 results and the handler log are compared with the parameter model. distinct_nontrivial = distinct (n supplied, m pulled, required/optional pattern of the surplus pulls, unit position class, ending class, query?) tuples"
    }
    fn assumptions(&self) -> Vec<String> {
        vec![
            "handlers pull raw tokens (next_token / next_optional_token) and propagate pull errors, as the crate's own handlers do".into(),
            "elements are well formed (ill-formed ones belong to C04)".into(),
        ]
    }
    fn runs(&self, tier: Tier) -> u64 {
        match tier {
            Tier::Quick => 600_000,
            Tier::Thorough => 10_000_000,
            Tier::Tiny => 40,
        }
    }
    fn required_probes(&self) -> Vec<String> {
        let v: Vec<&str> = vec![
            "overpull_required_at_unit_separator",
            "overpull_optional_at_unit_separator",
            "optional_pull_at_end_of_input",
            "underconsume_in_last_unit",
            "underconsume_in_first_unit_of_many",
            "zero_params_with_trailing_space",
            "zero_params_no_space",
            "exact_consumption_6",
            "long_list_of_256_or_more_elements_pulled_to_the_end",
            "indefinite_block_last",
            "optional_typed_pull_on_wrong_type",
            "tolerant_handler_pulls_on_after_refused_conversion",
        ];
        v.into_iter().map(String::from).collect()
    }

    fn gen(&self, seed: u64, run: u64, _tier: Tier) -> Trace {
        let mut rng = Rng::new(mix(seed, "C06", run));
        let mut trng = Rng::new(mix(seed, "C06-tree", run / 64));
        let tree = gen_tree(&mut trng, false, 3, 3, 1);
        let cfg = Config {
            queue: QueueCfg::Vec,
            controllers: 1,
            tree,
            plain488: false,
            no_mav: false,
        };
        let mut t = base_trace("C06", seed, run, "arity", cfg.clone());
        let tc = TreeCtx::new(&cfg.tree);
        if tc.sim_leaves.is_empty() {
            return t;
        }
        let nmsg = rng.urange(1, 6);
        let mut uniq = 0u32;
        for _ in 0..nmsg {
            let k = *rng.pick(&[1usize, 1, 2, 3, 4]);
            let mut units = Vec::new();
            let mut level: Vec<usize> = Vec::new();
            let end = *rng.pick(&["", "", "\n", " ", " \n", ";", "\r\n"]);
            for i in 0..k {
                let leaf = pick_sim_leaf(&mut rng, &tc).unwrap().clone();
                let last = i + 1 == k;
                let o = UnitOpts {
                    max_params: 6,
                    allow_indef_last: last && end.is_empty(),
                    query_pct: 40,
                    max_data: 2,
                    fancy_ws: true,
                };
                let mut u = gen_app_unit(&mut rng, &tc, &leaf, &level, i == 0, &mut uniq, &o);
                // a long list (list commands pull `while let Some(..)`): element counts around the
                // widths a position counter could have (255/256/257, 300, 511..513)
                if !u.params.is_empty() && !matches!(u.params.last(), Some(Elem::BlkIndef { .. })) && rng.chance(1, 96) {
                    let target = *rng.pick(&[254usize, 255, 256, 257, 258, 300, 511, 512, 513]);
                    while u.params.len() < target {
                        u.params.push(gen_elem(&mut rng, &mut uniq, false));
                        u.psep.push(if rng.chance(1, 8) { gen_psep(&mut rng) } else { B::from(",") });
                    }
                }
                let n = u.params.len();
                // scheduled pull pattern: m in 0..n+2
                let m = match rng.below(5) {
                    0 => n,
                    1 => rng.usize_below(n + 1),
                    2 => n + 1,
                    3 => n + 2,
                    _ => rng.usize_below(n + 3),
                };
                u.plan.pulls = (0..m)
                    .map(|_| Pull {
                        req: rng.chance(1, 2),
                        ty: PullTy::Tok,
                    })
                    .collect();
                // sometimes one pull asks for a typed conversion; judged only where the element can
                // never be of that type (data type error), otherwise the step is skipped
                if m > 0 && rng.chance(1, 6) {
                    let j = rng.usize_below(m.min(n.max(1)));
                    u.plan.pulls[j].ty = *rng.pick(&[
                        PullTy::U8,
                        PullTy::I32,
                        PullTy::F64,
                        PullTy::Bool,
                        PullTy::Bytes,
                        PullTy::Str,
                        PullTy::Arb,
                        PullTy::Chr,
                        PullTy::NumList,
                        PullTy::ChanList,
                        PullTy::U64,
                    ]);
                    // a tolerant handler: carries on with its next pull after a failed conversion
                    // (which must then be offered the NEXT element, not the refused one again)
                    u.plan.swallow = rng.chance(1, 2);
                }
                if i > 0 && rng.chance(1, 4) {
                    u.lead = gen_ws(&mut rng, false);
                }
                if let Some(l) = level_after(&tc, &level, i == 0, u.colon, &u.path) {
                    level = l;
                }
                units.push(u);
            }
            t.steps.push(Step::Send(SendStep {
                ctl: 0,
                fmt: FmtCfg::Vec,
                msg: Msg { units, end: B::from(end) },
                corrupt: vec![],
            }));
        }
        t
    }

    fn check(&self, trace: &Trace, stats: &mut Stats) -> Vec<Finding> {
        struct H;
        impl StepHandler for H {
            fn on_send(&mut self, world: &mut World, before: &ModelState, i: usize, s: &SendStep, o: &SendObs, stats: &mut Stats, out: &mut Vec<Finding>) {
                let pred = super::predict_seen(world, before, s, o, Reading::Condition);
                if !pred.structural {
                    return;
                }
                let k = s.msg.units.len();
                for (ui, u) in s.msg.units.iter().enumerate() {
                    if pred.fail_unit.map(|f| ui > f).unwrap_or(false) {
                        break;
                    }
                    let n = u.params.len();
                    let m = u.plan.pulls.len();
                    let last = ui + 1 == k;
                    let pos = if k == 1 {
                        0
                    } else if ui == 0 {
                        1
                    } else if last {
                        3
                    } else {
                        2
                    };
                    let ending: u8 = if !last {
                        if u.tail.is_empty() && !(n == 0 && !u.hsep.is_empty()) {
                            0
                        } else {
                            1
                        }
                    } else {
                        match s.msg.end.as_slice() {
                            b"" => 2,
                            b"\n" | b"\r\n" => 3,
                            b" " => 4,
                            b";" => 6,
                            _ => 5,
                        }
                    };
                    let surplus: Vec<u8> = u.plan.pulls.iter().skip(n).map(|p| p.req as u8).collect();
                    let mut key = vec![n as u8, m as u8, pos, ending, u.query as u8];
                    key.extend(surplus.iter());
                    stats.state(&key);
                    if u.plan.swallow {
                        if let Some(j) = u.plan.pulls.iter().position(|p| p.ty != PullTy::Tok) {
                            if j < n && j + 1 < m && j + 1 < n {
                                stats.probe("tolerant_handler_pulls_on_after_refused_conversion");
                            }
                        }
                    }
                    if m > n {
                        stats.fault("F2_overconsume");
                        let first_req = u.plan.pulls[n].req;
                        if !last {
                            stats.probe(if first_req {
                                "overpull_required_at_unit_separator"
                            } else {
                                "overpull_optional_at_unit_separator"
                            });
                        } else if s.msg.end.is_empty() && !first_req {
                            stats.probe("optional_pull_at_end_of_input");
                        }
                    }
                    if m < n {
                        stats.fault("F2_underconsume");
                        if last {
                            stats.probe("underconsume_in_last_unit");
                        }
                        if ui == 0 && k > 1 {
                            stats.probe("underconsume_in_first_unit_of_many");
                        }
                    }
                    if n == 0 {
                        stats.probe(if u.hsep.is_empty() {
                            "zero_params_no_space"
                        } else {
                            "zero_params_with_trailing_space"
                        });
                    }
                    if n == 6 && m == 6 {
                        stats.probe("exact_consumption_6");
                    }
                    if n >= 256 && m >= n {
                        stats.probe("long_list_of_256_or_more_elements_pulled_to_the_end");
                    }
                    for (j, p) in u.plan.pulls.iter().enumerate() {
                        if j < n && !p.req && p.ty != PullTy::Tok && clearly_wrong_type(p.ty, &u.params[j]) {
                            stats.probe("optional_typed_pull_on_wrong_type");
                        }
                    }
                    if matches!(u.params.last(), Some(Elem::BlkIndef { .. })) {
                        stats.probe("indefinite_block_last");
                    }
                }
                if let Some(df) = cmp_pulls(&pred, o, &s.msg) {
                    out.push(Finding::new("C06.parameters", df.sig, i, format!("message {}: {}", describe_msg(s), df.detail)));
                    return;
                }
                if let Some(df) = cmp_dispatch(&pred, o) {
                    // only "a later unit's handler ran although an earlier unit had wrong arity"
                    // is C06's business
                    if df.sig == "handler_ran_after_failing_unit" || df.sig == "extra_handler_invocation" {
                        out.push(Finding::new(
                            "C06.next_unit_started",
                            "handler_of_following_unit_ran_after_arity_error",
                            i,
                            format!("message {}: {}", describe_msg(s), df.detail),
                        ));
                        return;
                    }
                }
                if let Some(df) = cmp_result(&pred, o) {
                    let arity = matches!(pred.result, Err(ExpErr::Code(-108)) | Err(ExpErr::Code(-109)));
                    let got_arity = matches!(&o.result, Err(e) if e.code == -108 || e.code == -109);
                    if arity || got_arity {
                        out.push(Finding::new("C06.arity_result", df.sig, i, format!("message {}: {}", describe_msg(s), df.detail)));
                    } else {
                        stats.bump("result_mismatch_outside_c06");
                    }
                }
            }
        }
        let f = drive(trace, stats, &mut H);
        if trace.run < 3 && stats.samples.is_empty() {
            let msgs: Vec<serde_json::Value> = trace
                .steps
                .iter()
                .take(4)
                .filter_map(|s| match s {
                    Step::Send(x) => Some(serde_json::json!({"msg": describe_msg(x), "pulls": x.msg.units.iter().map(|u| u.plan.pulls.iter().map(|p| if p.req {"req"} else {"opt"}).collect::<Vec<_>>()).collect::<Vec<_>>()})),
                    _ => None,
                })
                .collect();
            stats.samples.push(serde_json::to_string(&msgs).unwrap());
        }
        f
    }
}
