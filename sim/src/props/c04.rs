//! C04 - lexing is faithful: element boundaries and types follow IEEE 488.2 section 7.
//! The fault-shaped half of the property: (1) end-to-end element integrity - what the controller
//! put on the wire is what recording handlers receive; (2) a catalogue of 488.2 syntax faults
//! injected at every element position must be rejected with a command error.

use crate::exec::{SendObs, World};
use crate::gen::*;
use crate::model::*;
use crate::msg::*;
use crate::props::structural::*;
use crate::props::*;
use crate::rng::{mix, Rng};
use crate::runner::{Finding, Prop, Tier};
use crate::stats::Stats;
use crate::tree::gen_tree;
use crate::types::*;

pub struct C04;

/// `Tokenizer::new_params` over the parameter text of one unit: the data elements of a
/// well-formed unit separated by data separators; for a leading comma an error.
fn params_lexer(u: &Unit) -> Option<(String, String)> {
    use scpi::parser::tokenizer::{Token, Tokenizer};
    let leading_comma = matches!(&u.pfault, Some(f) if f.kind == "leading_comma");
    if u.pfault.is_some() && !leading_comma {
        return None;
    }
    let mut text: Vec<u8> = Vec::new();
    if leading_comma {
        text.push(b',');
    }
    for (j, e) in u.params.iter().enumerate() {
        if j > 0 {
            text.extend_from_slice(u.psep.get(j - 1).map(|p| p.as_slice()).unwrap_or(b","));
        }
        render_elem(e, &mut text);
    }
    text.extend_from_slice(u.tail.as_slice());
    let r = std::panic::catch_unwind(|| {
        let mut got: Vec<core::result::Result<Tok, i16>> = Vec::new();
        for t in Tokenizer::new_params(&text) {
            match t {
                Ok(Token::ProgramDataSeparator) => {}
                Ok(tok) => got.push(Ok(crate::device::obs_tok(&tok))),
                Err(e) => {
                    got.push(Err(e.get_code()));
                    break;
                }
            }
            if got.len() > text.len() + 1 {
                break;
            }
        }
        got
    });
    let got = match r {
        Ok(g) => g,
        Err(_) => return Some(("params_lexer_panicked".into(), format!("Tokenizer::new_params({:?}) panicked: {}", B(text.clone()), crate::exec::take_panic()))),
    };
    if leading_comma {
        return match got.first() {
            Some(Err(c)) if is_command_error(*c) => None,
            other => Some(("leading_comma_accepted_by_new_params".into(), format!("Tokenizer::new_params({:?}) starts with {:?}, expected a command error", B(text.clone()), other))),
        };
    }
    let mut exp: Vec<core::result::Result<Tok, i16>> = Vec::new();
    let mut wide = false;
    for e in u.params.iter() {
        if crate::model::nondec_wide(e) {
            wide = true;
            break;
        }
        if let Some(t) = expected_tok(e) {
            exp.push(Ok(t));
        }
    }
    if wide {
        // a literal of more than 64 bits: no token can carry its exact value, it must be refused
        // (a value fault) at that position
        let ok = got.len() == exp.len() + 1 && got[..exp.len()] == exp[..] && matches!(got.last(), Some(Err(c)) if is_execution_error(*c));
        if !ok {
            return Some(("over_wide_literal_not_refused_by_new_params".into(), format!("Tokenizer::new_params({:?}) yields {:?}, expected {:?} followed by an execution error for the literal that does not fit 64 bits", B(text.clone()), got, exp)));
        }
        return None;
    }
    if got != exp {
        return Some(("new_params_disagrees_with_message_lexing".into(), format!("Tokenizer::new_params({:?}) yields {:?}, the elements are {:?}", B(text.clone()), got, exp)));
    }
    None
}

/// A message damaged in flight whose bytes are still a member of the strict language: its
/// decomposition is known, so element integrity and the result can be judged.
fn check_corrupted(world: &mut World, before: &ModelState, i: usize, s: &SendStep, o: &SendObs, stats: &mut Stats, out: &mut Vec<Finding>) {
    use crate::tree::{resolve, Resolved, H};
    let m2 = match parse_strict(&o.bytes) {
        Some(m) => m,
        None => {
            stats.bump("corrupted_not_in_strict_language");
            return;
        }
    };
    if render(&m2) != o.bytes {
        stats.bump("harness_strict_roundtrip_mismatch");
        return;
    }
    // the k-th SimHandler invocation follows the k-th plan of the ORIGINAL message
    let plans = world.plans_for(&s.msg);
    let mut m2 = m2;
    let mut level: Vec<usize> = Vec::new();
    let mut k = 0usize;
    for (ui, u) in m2.units.iter_mut().enumerate() {
        match resolve(&world.root, &level, ui == 0, u.colon, &u.path) {
            Resolved::Leaf { h, level: l } => {
                level = l;
                if let H::Sim(_) = h {
                    u.plan = plans.get(k).cloned().unwrap_or_default();
                    k += 1;
                }
            }
            Resolved::Undefined => break,
        }
    }
    let s2 = SendStep {
        ctl: s.ctl,
        fmt: s.fmt.clone(),
        msg: m2,
        corrupt: vec![],
    };
    let pred = predict(&world.root, before, &s2, Reading::Condition);
    if !pred.structural {
        return;
    }
    stats.probe("corrupted_message_still_well_formed");
    stats.state_str(&format!("corrupt|{:?}|{:?}", s.corrupt.first().map(|c| std::mem::discriminant(c)), pred.result.is_ok()));
    let msgd = format!("{:?} (damaged in flight by {:?})", B(o.bytes.clone()), s.corrupt);
    if let Some(df) = cmp_pulls(&pred, o, &s2.msg) {
        out.push(Finding::new("C04.element_integrity", format!("after_corruption_{}", df.sig), i, format!("message {}: {}", msgd, df.detail)));
        return;
    }
    if let Some(df) = cmp_dispatch(&pred, o) {
        out.push(Finding::new("C04.well_formed_accepted", format!("after_corruption_{}", df.sig), i, format!("message {}: {}", msgd, df.detail)));
        return;
    }
    if let Some(df) = cmp_result(&pred, o) {
        out.push(Finding::new("C04.well_formed_accepted", format!("after_corruption_{}", df.sig), i, format!("message {}: {}", msgd, df.detail)));
    }
}

fn elem_kind(e: &Elem) -> u8 {
    match e {
        Elem::Chr(_) => 1,
        Elem::Dec(_) => 2,
        Elem::DecSuf { .. } => 3,
        Elem::NonDec { .. } => 4,
        Elem::Str { .. } => 5,
        Elem::Blk { .. } => 6,
        Elem::BlkIndef { .. } => 7,
        Elem::Expr(_) => 8,
        Elem::Raw(_) => 9,
    }
}

/// boundary-directed elements (12-character limits, block length header boundaries, doubled
/// quote at the end of a string, 64-bit non-decimal literals)
fn boundary_elem(rng: &mut Rng, uniq: &mut u32) -> Elem {
    *uniq += 1;
    match rng.below(9) {
        0 => Elem::Chr(format!("A{:011}", *uniq % 100_000)), // exactly 12 characters
        1 => Elem::DecSuf {
            num: format!("{}", uniq),
            ws: B::from(*rng.pick(&["", " "])),
            suf: "ABCDEFGHIJKL".into(), // 12-character suffix
        },
        2 => {
            let q = *rng.pick(&['"', '\'']);
            let mut inner = format!("q{}", uniq).into_bytes();
            inner.push(q as u8);
            inner.push(q as u8); // doubled quote right before the closing quote
            Elem::Str { q, inner: B(inner) }
        }
        3 => {
            let q = *rng.pick(&['"', '\'']);
            Elem::Str {
                q,
                inner: B(vec![q as u8, q as u8]),
            }
        }
        4 => {
            let len = *rng.pick(&[0usize, 9, 10, 99, 100, 101]);
            let mut p = format!("B{}", uniq).into_bytes();
            p.resize(len, b';');
            p.truncate(len);
            Elem::Blk { payload: B(p), pad: 0 }
        }
        5 => Elem::NonDec {
            radix: 'H',
            digits: "FFFFFFFFFFFFFFFF".into(),
        },
        6 => Elem::NonDec {
            radix: 'B',
            digits: "1".repeat(64),
        },
        7 => Elem::Str {
            q: '"',
            inner: B::new(),
        },
        _ => Elem::Expr(B::new()),
    }
}

impl Prop for C04 {
    fn id(&self) -> &'static str {
        "C04"
    }
    fn level(&self) -> &'static str {
        "exploration"
    }
    fn rule(&self) -> &'static str {
        "one run = one random tree and 1-4 messages of 1-5 units whose parameters are drawn from all seven 488.2 data types (strings with ; , : quotes doubled NL; definite blocks with arbitrary bytes and length headers across 9/10/99/100; #0 blocks at end of message; expressions containing , :; NR1/NR2/NR3 spellings; suffixes with/without white space; #H/#Q/#B up to 64 bits; 12-character boundary cases) with seeded white-space placement, executed fault-free (recording handlers must receive exactly the generated elements) and then with ONE catalogued syntax fault (12 header faults, 25 parameter faults) at EVERY unit position, which must yield a command error with no later handler running. distinct_nontrivial = distinct (element type, position class, white-space class) and (fault kind, unit position class, pulls-before-fault) tuples"
    }
    fn assumptions(&self) -> Vec<String> {
        vec![
            "white-space placements generated: after the header, around ',', before/after ';', before the terminator, between number and suffix; NOT generated (488.2 status not settled offline): white space before the first header, inside mantissa/exponent".into(),
            "the fault catalogue entries are IEEE 488.2 section 7 violations by the author's reading of the standard".into(),
            "the exhaustive-bounded-strings part of the quantifier is not addressed by this technique".into(),
        ]
    }
    fn runs(&self, tier: Tier) -> u64 {
        match tier {
            Tier::Quick => 100_000,
            Tier::Thorough => 1_500_000,
            Tier::Tiny => 20,
        }
    }
    fn required_probes(&self) -> Vec<String> {
        let v: Vec<&str> = vec![
            "chardata_12_chars",
            "suffix_12_chars",
            "doubled_quote_at_end_of_string",
            "block_len_0",
            "block_len_9",
            "block_len_10",
            "block_len_99",
            "block_len_100",
            "indefinite_block",
            "nondecimal_64_bits",
            "tolerant_handler_reads_past_a_refused_element",
            "nondecimal_wider_than_64_bits_refused",
            "nondecimal_zero_padded_beyond_64_bits",
            "separator_inside_string",
            "separator_inside_block",
            "separator_inside_expression",
            "corrupted_message_still_well_formed",
        ];
        let mut v: Vec<String> = v.into_iter().map(String::from).collect();
        for k in HEADER_FAULTS {
            v.push(format!("header_fault_{}", k));
        }
        for k in PARAM_FAULTS {
            v.push(format!("param_fault_{}", k));
        }
        v
    }

    fn gen(&self, seed: u64, run: u64, _tier: Tier) -> Trace {
        let mut rng = Rng::new(mix(seed, "C04", run));
        let mut trng = Rng::new(mix(seed, "C04-tree", run / 64));
        let tree = gen_tree(&mut trng, false, 3, 3, 1);
        let cfg = Config {
            queue: QueueCfg::Vec,
            controllers: 1,
            tree,
            plain488: false,
            no_mav: false,
        };
        let mut t = base_trace("C04", seed, run, "lexing", cfg.clone());
        let tc = TreeCtx::new(&cfg.tree);
        if tc.sim_leaves.is_empty() {
            return t;
        }
        let nmsg = rng.urange(1, 4);
        let mut uniq = 0u32;
        for _ in 0..nmsg {
            let k = rng.urange(1, 5);
            let end = *rng.pick(&["", "", "\n", " \n", "\r\n", " ", ";"]);
            let mut units = Vec::new();
            let mut level: Vec<usize> = Vec::new();
            for i in 0..k {
                let leaf = pick_sim_leaf(&mut rng, &tc).unwrap().clone();
                let last = i + 1 == k;
                let o = UnitOpts {
                    max_params: 6,
                    allow_indef_last: last && end.is_empty(),
                    query_pct: 30,
                    max_data: 1,
                    fancy_ws: true,
                };
                let mut u = gen_app_unit(&mut rng, &tc, &leaf, &level, i == 0, &mut uniq, &o);
                // sprinkle boundary cases
                for j in 0..u.params.len() {
                    if rng.chance(1, 4) && !matches!(u.params[j], Elem::BlkIndef { .. }) {
                        u.params[j] = boundary_elem(&mut rng, &mut uniq);
                    }
                }
                // recording handler: pulls everything, required
                u.plan.pulls = (0..u.params.len())
                    .map(|_| Pull {
                        req: true,
                        ty: PullTy::Tok,
                    })
                    .collect();
                if i > 0 && rng.chance(1, 3) {
                    u.lead = gen_ws(&mut rng, false);
                }
                if let Some(l) = level_after(&tc, &level, i == 0, u.colon, &u.path) {
                    level = l;
                }
                units.push(u);
            }
            let base = Msg { units, end: B::from(end) };
            t.steps.push(Step::Send(SendStep {
                ctl: 0,
                fmt: FmtCfg::Vec,
                msg: base.clone(),
                corrupt: vec![],
            }));
            // single-point corruptions of the well-formed message (judged only when the damaged
            // bytes are still a member of the strict language, see msg::parse_strict)
            {
                let bytes = render(&base);
                for _ in 0..3 {
                    let mut c = gen_corruption(&mut rng, &bytes, 1, None);
                    // single-point: no truncation to nothing, no splice
                    c.retain(|x| !matches!(x, Corrupt::Splice { .. }));
                    if c.is_empty() {
                        continue;
                    }
                    t.steps.push(Step::Send(SendStep {
                        ctl: 0,
                        fmt: FmtCfg::Vec,
                        msg: base.clone(),
                        corrupt: c,
                    }));
                }
            }
            // one catalogued fault at every unit position
            for i in 0..k {
                let last = i + 1 == k;
                if matches!(base.units[i].params.last(), Some(Elem::BlkIndef { .. })) {
                    continue;
                }
                for which in 0..2 {
                    let mut m = base.clone();
                    let mut uu = m.units[i].clone();
                    let ok = if which == 0 {
                        let kind = HEADER_FAULTS[(run as usize * 7 + i * 3 + t.steps.len()) % HEADER_FAULTS.len()];
                        apply_header_fault(&mut rng, &mut uu, kind)
                    } else {
                        let kind = PARAM_FAULTS[(run as usize * 5 + i * 11 + t.steps.len()) % PARAM_FAULTS.len()];
                        let ok = apply_param_fault(&mut rng, &mut uu, kind, last, &mut uniq);
                        if ok {
                            // the handler pulls as many parameters as there are now (some faults
                            // add an element), or sometimes fewer (left-over check must catch it)
                            let n = uu.params.len();
                            let m_pulls = if rng.chance(1, 4) {
                                rng.usize_below(n + 1)
                            } else if rng.chance(1, 3) {
                                n + 1 // one pull more than there are elements (required or optional)
                            } else {
                                n
                            };
                            uu.plan.pulls = (0..m_pulls)
                                .map(|_| Pull {
                                    req: rng.chance(2, 3),
                                    ty: PullTy::Tok,
                                })
                                .collect();
                            // a tolerant handler (carries on after a refused parameter and returns
                            // Ok): the element is refused all the same, the message must still fail
                            if ELEMENT_FAULTS.contains(&kind) && rng.chance(1, 3) {
                                uu.plan.swallow = true;
                            }
                            if last {
                                m.end = B::new();
                            }
                        }
                        ok
                    };
                    if ok {
                        m.units[i] = uu;
                        t.steps.push(Step::Send(SendStep {
                            ctl: 0,
                            fmt: FmtCfg::Vec,
                            msg: m,
                            corrupt: vec![],
                        }));
                    }
                }
            }
        }
        t
    }

    fn check(&self, trace: &Trace, stats: &mut Stats) -> Vec<Finding> {
        struct H;
        impl StepHandler for H {
            fn on_send(&mut self, world: &mut World, before: &ModelState, i: usize, s: &SendStep, o: &SendObs, stats: &mut Stats, out: &mut Vec<Finding>) {
                let pred = super::predict_seen(world, before, s, o, Reading::Condition);
                if !pred.structural {
                    if !s.corrupt.is_empty() {
                        check_corrupted(world, before, i, s, o, stats, out);
                    }
                    return;
                }
                // harness self-check: the strict recogniser accepts what the generator produces
                if s.msg.units.iter().all(|u| u.hfault.is_none() && u.pfault.is_none()) {
                    match parse_strict(&o.bytes) {
                        Some(m2) => {
                            let same = m2.units.len() == s.msg.units.len()
                                && m2.units.iter().zip(s.msg.units.iter()).all(|(a, b)| {
                                    a.path == b.path
                                        && a.colon == b.colon
                                        && a.query == b.query
                                        && a.params.len() == b.params.len()
                                        && a.params.iter().zip(b.params.iter()).all(|(x, y)| expected_tok(x) == expected_tok(y))
                                });
                            if !same || render(&m2) != o.bytes {
                                stats.bump("harness_strict_recogniser_disagrees_with_generator");
                            } else {
                                stats.bump("strict_recogniser_agrees_with_generator");
                            }
                        }
                        None => stats.bump("strict_recogniser_rejects_generated_message"),
                    }
                }
                let k = s.msg.units.len();
                let mut fault_kind: Option<String> = None;
                for (ui, u) in s.msg.units.iter().enumerate() {
                    let posc = if ui == 0 { 0 } else if ui + 1 == k { 2 } else { 1 };
                    if let Some((kind, _)) = &u.hfault {
                        stats.fault("F3_syntax_fault");
                        stats.probe(&format!("header_fault_{}", kind));
                        stats.state_str(&format!("hf|{}|{}", kind, posc));
                        fault_kind = Some(kind.clone());
                    }
                    if let Some(pf) = &u.pfault {
                        stats.fault("F3_syntax_fault");
                        stats.probe(&format!("param_fault_{}", pf.kind));
                        stats.state_str(&format!("pf|{}|{}|{}|{}", pf.kind, posc, pf.p.min(3), u.plan.pulls.len().min(pf.p + 1)));
                        fault_kind = Some(pf.kind.clone());
                        if u.plan.swallow && pf.p >= 1 && u.plan.pulls.len() > pf.p {
                            stats.probe("tolerant_handler_reads_past_a_refused_element");
                        }
                    }
                    if u.hfault.is_some() || u.pfault.is_some() {
                        continue;
                    }
                    let n = u.params.len();
                    for (j, e) in u.params.iter().enumerate() {
                        let pc = if j == 0 { 0 } else if j + 1 == n { 2 } else { 1 };
                        let wsc = (u.psep.get(j.saturating_sub(1)).map(|p| p.len() > 1).unwrap_or(false) as u8) | ((!u.tail.is_empty()) as u8) << 1;
                        stats.state(&[b'e', elem_kind(e), pc, wsc, posc]);
                        match e {
                            Elem::Chr(s) if s.len() == 12 => stats.probe("chardata_12_chars"),
                            Elem::DecSuf { suf, .. } if suf.len() == 12 => stats.probe("suffix_12_chars"),
                            Elem::Str { q, inner } => {
                                if inner.0.ends_with(&[*q as u8, *q as u8]) {
                                    stats.probe("doubled_quote_at_end_of_string");
                                }
                                if inner.0.iter().any(|c| matches!(*c, b';' | b',' | b':')) {
                                    stats.probe("separator_inside_string");
                                }
                            }
                            Elem::Blk { payload, .. } => {
                                match payload.len() {
                                    0 => stats.probe("block_len_0"),
                                    9 => stats.probe("block_len_9"),
                                    10 => stats.probe("block_len_10"),
                                    99 => stats.probe("block_len_99"),
                                    100 => stats.probe("block_len_100"),
                                    _ => {}
                                }
                                if payload.0.iter().any(|c| matches!(*c, b';' | b',' | b'\n')) {
                                    stats.probe("separator_inside_block");
                                }
                            }
                            Elem::BlkIndef { .. } => stats.probe("indefinite_block"),
                            Elem::NonDec { digits, radix } => {
                                let bits = match radix.to_ascii_uppercase() {
                                    'H' => digits.len() * 4,
                                    'Q' => digits.len() * 3,
                                    _ => digits.len(),
                                };
                                if bits >= 63 {
                                    stats.probe("nondecimal_64_bits");
                                }
                                if crate::model::nondec_wide(e) {
                                    stats.probe("nondecimal_wider_than_64_bits_refused");
                                } else if bits > 66 {
                                    stats.probe("nondecimal_zero_padded_beyond_64_bits");
                                }
                            }
                            Elem::Expr(inner) => {
                                if inner.0.iter().any(|c| matches!(*c, b',' | b':')) {
                                    stats.probe("separator_inside_expression");
                                }
                            }
                            _ => {}
                        }
                    }
                }
                let msgd = describe_msg(s);
                // the data-only lexer entry point must agree with the in-message lexing
                for u in &s.msg.units {
                    if u.hfault.is_some() || u.params.is_empty() {
                        continue;
                    }
                    if let Some((sig, detail)) = params_lexer(u) {
                        out.push(Finding::new("C04.params_lexer", sig, i, format!("parameters of {}: {}", msgd, detail)));
                        return;
                    }
                    stats.bump("params_lexer_compared");
                }
                match &fault_kind {
                    None => {
                        // element integrity
                        if let Some(df) = cmp_pulls(&pred, o, &s.msg) {
                            out.push(Finding::new("C04.element_integrity", df.sig, i, format!("message {}: {}", msgd, df.detail)));
                            return;
                        }
                        if let Some(df) = cmp_result(&pred, o) {
                            out.push(Finding::new("C04.well_formed_accepted", df.sig, i, format!("message {}: {}", msgd, df.detail)));
                        }
                    }
                    Some(kind) => {
                        // rejected with a command error; nothing after the faulty unit runs;
                        // elements before the fault were delivered intact
                        match &o.result {
                            Ok(()) => {
                                out.push(Finding::new(
                                    "C04.fault_rejected",
                                    format!("accepted_{}", kind),
                                    i,
                                    format!("message {} carries the syntax fault '{}' but was executed successfully (handlers {})", msgd, kind, fmt_calls(&o.calls)),
                                ));
                                return;
                            }
                            // (an unrepresentable literal met before the fault is refused as the
                            // value fault it is)
                            Err(e) if !is_command_error(e.code) && !matches!(&pred.result, Err(x) if x.accepts(e)) => {
                                out.push(Finding::new(
                                    "C04.fault_rejected",
                                    format!("not_a_command_error_{}", kind),
                                    i,
                                    format!("message {} carries the syntax fault '{}' and failed with {:?}, which is not a command error", msgd, kind, e),
                                ));
                                return;
                            }
                            Err(_) => {}
                        }
                        if let Some(df) = cmp_pulls(&pred, o, &s.msg) {
                            out.push(Finding::new("C04.element_integrity", df.sig, i, format!("message {} (fault '{}'): {}", msgd, kind, df.detail)));
                            return;
                        }
                        if let Some(df) = cmp_dispatch(&pred, o) {
                            if df.sig == "handler_ran_after_failing_unit" {
                                out.push(Finding::new(
                                    "C04.fault_rejected",
                                    format!("later_unit_ran_{}", kind),
                                    i,
                                    format!("message {} (fault '{}'): {}", msgd, kind, df.detail),
                                ));
                            }
                        }
                    }
                }
            }
        }
        let f = drive(trace, stats, &mut H);
        // "every fault kind" probes are evaluated over the merged counters by extra_probes()
        if trace.run < 3 && stats.samples.is_empty() {
            let msgs: Vec<String> = trace
                .steps
                .iter()
                .take(5)
                .filter_map(|s| match s {
                    Step::Send(x) => Some(describe_msg(x)),
                    _ => None,
                })
                .collect();
            stats.samples.push(serde_json::to_string(&msgs).unwrap());
        }
        f
    }
}
