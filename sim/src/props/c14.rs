//! C14 - every error code maps to the ESR bit of its IEEE 488.2 class.
//! (a) the error code is a *fault parameter*: all 65 536 handler-raised codes are swept through
//! the real path run -> handle_error -> push_error -> *ESR? / SYST:ERR?; (b) the class of
//! library-raised errors is monitored over messages carrying catalogued faults.

use crate::exec::{SendObs, World};
use crate::gen::*;
use crate::model::*;
use crate::props::c13::{gen_reg_value, wrong_type_elem, HistGen};
use crate::props::c15::fresh_shadow;
use crate::props::*;
use crate::rng::{mix, Rng};
use crate::runner::{Finding, Prop, Tier};
use crate::stats::Stats;
use crate::tree::gen_tree;
use crate::types::*;

pub struct C14;

const SWEEP: u64 = 65_536;

/// The error/event numbers SCPI-99 (vol. 2 ch. 21.8) defines and the crate implements as named
/// errors (copied into the harness: the model never asks the library what is standard).
pub const STANDARD_CODES: &[i16] = &[
    0, -100, -101, -102, -103, -104, -105, -108, -109, -110, -111, -112, -113, -114, -115, -120, -121, -123, -124, -128, -130, -131, -134, -138, -140,
    -141, -144, -148, -150, -151, -158, -160, -161, -168, -170, -171, -178, -180, -181, -183, -184, -200, -201, -202, -203, -210, -211, -212, -213,
    -214, -215, -220, -221, -222, -223, -224, -225, -226, -230, -231, -232, -233, -240, -241, -250, -251, -252, -253, -254, -255, -256, -257, -258,
    -260, -261, -270, -271, -272, -273, -274, -275, -276, -277, -278, -280, -281, -282, -283, -284, -285, -286, -290, -291, -292, -293, -294, -300,
    -310, -311, -312, -313, -314, -315, -320, -321, -330, -340, -350, -360, -361, -362, -363, -365, -400, -410, -420, -430, -440, -500, -600, -700,
    -800,
];

fn sweep_tree() -> TreeDesc {
    TreeDesc {
        mandated: true,
        app: vec![TNode::Leaf {
            name: "RAISe".into(),
            default: false,
            h: 0,
        }],
        fixed: None,
    }
}

impl Prop for C14 {
    fn id(&self) -> &'static str {
        "C14"
    }
    fn level(&self) -> &'static str {
        "fault_enumeration"
    }
    fn rule(&self) -> &'static str {
        "runs 0..65535: the handler-raised error number is swept over ALL 65 536 i16 values (the standard error when the number is defined, a custom one otherwise, with/without extended text); each run sends the failing message, then *ESR? and SYST:ERR? and compares with the class table of the statement. Runs >= 65536: monitor - messages carrying one catalogued fault (37 syntax faults, undefined header, arity, wrong data type, out-of-range value, exhausted response buffer) whose library-raised error must lie in the command-error resp. execution-error class. distinct_nontrivial = distinct error numbers swept + distinct (fault kind, observed code) pairs"
    }
    fn assumptions(&self) -> Vec<String> {
        vec!["the ESR bit is observed end to end through *ESR? on a device wired in the documented way".into()]
    }
    fn runs(&self, tier: Tier) -> u64 {
        match tier {
            Tier::Quick => SWEEP + 300_000,
            Tier::Thorough => SWEEP + 6_000_000,
            Tier::Tiny => 300,
        }
    }
    fn required_probes(&self) -> Vec<String> {
        let v: Vec<&str> = vec![
            "class_none",
            "class_command",
            "class_execution",
            "class_device",
            "class_query",
            "class_power_on",
            "class_user_request",
            "class_request_control",
            "class_operation_complete",
            "class_positive",
            "class_below_minus_899",
            "edge_minus_99",
            "edge_minus_100",
            "edge_minus_199",
            "edge_minus_200",
            "edge_minus_899",
            "edge_minus_900",
            "i16_min",
            "i16_max",
            "library_command_error",
            "library_execution_error_range",
            "non_decimal_literal_wider_than_64_bits",
            "library_execution_error_buffer",
            "standard_code_lookup",
            "library_execution_error_below_minimum",
            "library_execution_error_exponent_notation",
            "code_raised_against_full_queue",
            "api_table_value_faults",
        ];
        v.into_iter().map(String::from).collect()
    }

    fn gen(&self, seed: u64, run: u64, tier: Tier) -> Trace {
        if run < SWEEP && tier != Tier::Tiny || tier == Tier::Tiny && run < 200 {
            // ---- sweep: run index <-> error number (Tiny: a sample around the class edges)
            let code: i16 = if tier == Tier::Tiny {
                let edges: [i16; 20] = [0, -1, -99, -100, -101, -199, -200, -299, -300, -399, -400, -499, -500, -600, -700, -800, -899, -900, i16::MIN, i16::MAX];
                if (run as usize) < edges.len() {
                    edges[run as usize]
                } else {
                    (run as i64 * 327 - 32768) as i16
                }
            } else {
                (run as i64 - 32768) as i16
            };
            let mut rng = Rng::new(mix(seed, "C14-sweep", run));
            // every third error number is raised against a bounded queue that is already full (the
            // class bit must not depend on what the queue keeps)
            let full = run % 3 == 1;
            let cfg = Config {
                queue: if full { QueueCfg::Array { cap: *rng.pick(&[1usize, 2]) } } else { QueueCfg::Vec },
                controllers: 1,
                tree: sweep_tree(),
                plain488: false,
                no_mav: false,
            };
            let mut t = base_trace("C14", seed, run, if full { "sweep_full_queue" } else { "sweep" }, cfg.clone());
            let tc = TreeCtx::new(&cfg.tree);
            let ext = if rng.chance(1, 3) { Some(rng.below(16) as u8) } else { None };
            let mut u = Unit {
                path: vec![(*rng.pick(&["RAIS", "raise", "RAISE", "rais"])).to_string()],
                query: rng.chance(1, 2),
                ..Default::default()
            };
            u.plan.fail = Some(PlanFail {
                err: ErrSpec {
                    code,
                    ext,
                    msg: rng.below(8) as u8,
                },
                phase: Phase::Before,
            });
            let send = |m: Msg| {
                Step::Send(SendStep {
                    ctl: 0,
                    fmt: FmtCfg::Vec,
                    msg: m,
                    corrupt: vec![],
                })
            };
            if full {
                // fill the queue with events of the "no bit" class (they leave ESR alone)
                for k in 0..2 {
                    let mut f = Unit {
                        path: vec!["RAIS".to_string()],
                        ..Default::default()
                    };
                    f.plan.fail = Some(PlanFail {
                        err: ErrSpec {
                            code: -99 + k,
                            ext: None,
                            msg: 0,
                        },
                        phase: Phase::Before,
                    });
                    t.steps.push(send(Msg {
                        units: vec![f],
                        end: B::new(),
                    }));
                }
            }
            t.steps.push(send(Msg {
                units: vec![u],
                end: B::new(),
            }));
            let esr = contrib_unit(&mut rng, &tc, Contrib::Esr, true, vec![], &[], true);
            t.steps.push(send(Msg {
                units: vec![esr],
                end: B::new(),
            }));
            let next = contrib_unit(&mut rng, &tc, Contrib::SystErrNext, true, vec![], &[], true);
            t.steps.push(send(Msg {
                units: vec![next],
                end: B::new(),
            }));
            return t;
        }
        if run == SWEEP + 1 || (tier == Tier::Tiny && run == 201) {
            // conversions and resolvers that are public API but sit behind no mandated command:
            // a fixed table of value faults and type faults (see api_table())
            let cfg = Config {
                queue: QueueCfg::Vec,
                controllers: 1,
                tree: sweep_tree(),
                plain488: false,
                no_mav: false,
            };
            return base_trace("C14", seed, run, "api_table", cfg);
        }
        // ---- monitor: library-raised errors
        let mut rng = Rng::new(mix(seed, "C14-mon", run));
        let mut trng = Rng::new(mix(seed, "C14-tree", run / 64));
        let tree = gen_tree(&mut trng, true, 3, 3, 1);
        let cfg = Config {
            queue: QueueCfg::Vec,
            controllers: 1,
            tree,
            plain488: false,
            no_mav: false,
        };
        let mut t = base_trace("C14", seed, run, "monitor", cfg.clone());
        let tc = TreeCtx::new(&cfg.tree);
        let shadow = fresh_shadow(&cfg);
        let mut g = HistGen {
            rng: &mut rng,
            tc,
            uniq: 0,
            shadow,
        };
        let n = g.rng.urange(1, 6);
        for _ in 0..n {
            let mut fmt = FmtCfg::Vec;
            let msg = match g.rng.below(8) {
                0 | 1 | 2 | 3 => {
                    let mut m = g.app_msg(3);
                    if m.units.is_empty() {
                        continue;
                    }
                    let k = g.rng.usize_below(m.units.len());
                    // library-raised only: no handler-raised errors here
                    loop {
                        let mut mm = m.clone();
                        let tag = g.break_unit(&mut mm, k);
                        if tag != "F1_handler_error" {
                            m = mm;
                            break;
                        }
                    }
                    m
                }
                4 | 5 => {
                    let c = *g.rng.pick(&[
                        Contrib::Ese,
                        Contrib::Sre,
                        Contrib::StatReg(Reg::Oper, RegCmd::Enable),
                        Contrib::StatReg(Reg::Ques, RegCmd::Ptr),
                    ]);
                    let max = if matches!(c, Contrib::Ese | Contrib::Sre) { 255 } else { 65535 };
                    let p = if g.rng.chance(1, 6) {
                        // far out of range in exponent notation (beyond the float intermediate too)
                        Elem::Dec(g.rng.pick(&["1e39", "1E400", "2.5e10", "1e309", "7E+38", "3.5E38", "1.8e308", "9e99", "-1e39", "-4E400", "100000.0e5"]).to_string())
                    } else if g.rng.chance(1, 6) {
                        // below the minimum of the (unsigned) target
                        Elem::Dec(format!("-{}", 1 + g.rng.below(70000)))
                    } else if g.rng.chance(1, 2) {
                        let v = max + 1 + g.rng.below(5000);
                        if g.rng.chance(1, 3) {
                            Elem::NonDec {
                                radix: 'H',
                                digits: format!("{:X}", v),
                            }
                        } else {
                            Elem::Dec(format!("{}", v))
                        }
                    } else if g.rng.chance(1, 2) {
                        wrong_type_elem(g.rng)
                    } else {
                        gen_reg_value(g.rng, max).0
                    };
                    g.single(c, false, vec![p])
                }
                _ => {
                    // response buffer exhausted: inside a unit, exactly at a unit separator, or at
                    // the terminator
                    let n = g.rng.urange(1, 3);
                    let mut units = Vec::new();
                    for i in 0..n {
                        units.push(g.c(Contrib::Idn, true, vec![], &[], i == 0));
                    }
                    let len = n * crate::device::IDN_RESPONSE.len() + (n - 1);
                    fmt = FmtCfg::Array {
                        cap: if g.rng.chance(1, 3) {
                            // exactly full at the end of the k-th unit
                            let k = g.rng.urange(1, n);
                            k * crate::device::IDN_RESPONSE.len() + (k - 1)
                        } else {
                            g.rng.usize_below(len + 1)
                        },
                    };
                    Msg { units, end: B::new() }
                }
            };
            if msg.units.is_empty() {
                continue;
            }
            t.steps.push(Step::Send(SendStep {
                ctl: 0,
                fmt,
                msg,
                corrupt: vec![],
            }));
        }
        t
    }

    fn check(&self, trace: &Trace, stats: &mut Stats) -> Vec<Finding> {
        if trace.mode == "sweep" || trace.mode == "sweep_full_queue" {
            return check_sweep(trace, stats);
        }
        if trace.mode == "api_table" {
            return api_table(stats);
        }
        struct H;
        impl StepHandler for H {
            fn on_send(&mut self, world: &mut World, before: &ModelState, i: usize, s: &SendStep, o: &SendObs, stats: &mut Stats, out: &mut Vec<Finding>) {
                let pred = super::predict_seen(world, before, s, o, Reading::Condition);
                if !pred.structural {
                    return;
                }
                let kind: String = s
                    .msg
                    .units
                    .iter()
                    .find_map(|u| u.hfault.as_ref().map(|h| h.0.clone()).or(u.pfault.as_ref().map(|p| p.kind.clone())))
                    .unwrap_or_else(|| match &pred.result {
                        Err(ExpErr::Code(c)) => format!("code{}", c),
                        Err(ExpErr::ExecClass) => "value_out_of_range".into(),
                        Err(ExpErr::CommandClass) => "wrong_type".into(),
                        _ => "none".into(),
                    });
                if o.result.is_err() && s.msg.units.iter().any(|u| u.params.iter().any(crate::model::nondec_wide)) {
                    stats.probe("non_decimal_literal_wider_than_64_bits");
                }
                match (&pred.result, &o.result) {
                    (Err(exp), Err(e)) => {
                        stats.state_str(&format!("{}|{}", kind, e.code));
                        let want_cmd = matches!(exp, ExpErr::CommandClass | ExpErr::Code(-113) | ExpErr::Code(-108) | ExpErr::Code(-109));
                        let want_exec = matches!(exp, ExpErr::ExecClass | ExpErr::Code(-225));

                        if want_cmd {
                            stats.probe("library_command_error");
                            if !is_command_error(e.code) {
                                out.push(Finding::new(
                                    "C14.library_error_class",
                                    format!("syntax_or_type_fault_reported_as_{}", e.code).replace('-', "m"),
                                    i,
                                    format!("message {} ({}): failed with {:?}; syntax, header and data-type faults belong to -100..-199", describe_msg(s), kind, e),
                                ));
                            }
                        } else if want_exec {
                            stats.probe(if *exp == ExpErr::Code(-225) { "library_execution_error_buffer" } else { "library_execution_error_range" });
                            if s.msg.units.iter().any(|u| matches!(u.params.first(), Some(Elem::Dec(d)) if d.starts_with('-'))) {
                                stats.probe("library_execution_error_below_minimum");
                            }
                            if s.msg.units.iter().any(|u| matches!(u.params.first(), Some(Elem::Dec(d)) if d.contains('e') || d.contains('E'))) {
                                stats.probe("library_execution_error_exponent_notation");
                            }
                            if !is_execution_error(e.code) {
                                out.push(Finding::new(
                                    "C14.library_error_class",
                                    format!("value_fault_reported_as_{}", e.code).replace('-', "m"),
                                    i,
                                    format!("message {} ({}): failed with {:?}; value faults belong to -200..-299", describe_msg(s), kind, e),
                                ));
                            }
                        }
                    }
                    _ => {
                        stats.bump("result_not_as_predicted_skipped");
                    }
                }
            }
        }
        drive(trace, stats, &mut H)
    }
}

/// Value faults raised by public conversions / resolvers that no mandated command reaches:
/// each must be an execution error (-200..-299); the type faults next to them command errors.
fn api_table(stats: &mut Stats) -> Vec<Finding> {
    use scpi::error::Error;
    use scpi::parser::expression::channel_list::{ChannelList, Token as ChTok};
    use scpi::parser::tokenizer::Token;
    use scpi_contrib::scpi1999::NumericValue;
    let mut out = Vec::new();
    fn first_spec(expr: &'static [u8]) -> Option<scpi::parser::expression::channel_list::ChannelSpec<'static>> {
        match ChannelList::new(expr)?.next()? {
            Ok(ChTok::ChannelSpec(s)) => Some(s),
            _ => None,
        }
    }
    fn err_of<T>(r: core::result::Result<T, Error>) -> Option<i16> {
        r.err().map(|e| e.get_code())
    }
    // (name, observed error code (None = no error), value fault?)
    let mut rows: Vec<(&str, Option<i16>, bool)> = Vec::new();
    let r = std::panic::catch_unwind(|| {
        let mut rows: Vec<(&str, Option<i16>, bool)> = Vec::new();
        if let Some(s) = first_spec(b"@-5") {
            rows.push(("negative channel as usize", err_of(usize::try_from(s)), true));
        }
        if let Some(s) = first_spec(b"@-1!2") {
            rows.push(("negative first dimension as (usize,usize)", err_of(<(usize, usize)>::try_from(s)), true));
        }
        if let Some(s) = first_spec(b"@1!-2") {
            rows.push(("negative second dimension as (usize,usize)", err_of(<(usize, usize)>::try_from(s)), true));
        }
        if let Some(s) = first_spec(b"@1!2!-3") {
            rows.push(("negative third dimension as (usize,usize,usize)", err_of(<(usize, usize, usize)>::try_from(s)), true));
        }
        let nv = |t: Token<'static>| NumericValue::<f32>::try_from(t);
        if let Ok(v) = nv(Token::CharacterProgramData(b"UP")) {
            rows.push(("numeric_value UP resolved without step support", err_of(v.finish_with(10.0, -10.0)), true));
        }
        if let Ok(v) = nv(Token::CharacterProgramData(b"DOWN")) {
            rows.push(("numeric_value DOWN resolved without step support", err_of(v.finish_with(10.0, -10.0)), true));
        }
        if let Ok(v) = nv(Token::CharacterProgramData(b"DEF")) {
            rows.push(("numeric_value DEFault without a default", err_of(v.finish_with(10.0, -10.0)), true));
        }
        if let Ok(v) = nv(Token::DecimalNumericProgramData(b"11")) {
            rows.push(("numeric_value above its maximum", err_of(v.finish_with(10.0, -10.0)), true));
        }
        rows.push(("boolean from an unknown keyword", err_of(bool::try_from(Token::CharacterProgramData(b"MAYBE"))), true));
        rows.push((
            "enum from an unknown mnemonic",
            err_of(crate::device::SimEnum::try_from(Token::CharacterProgramData(b"POTATO"))),
            true,
        ));
        rows.push((
            "voltage with a suffix of another quantity",
            err_of(scpi::units::ElectricPotential::try_from(Token::DecimalNumericSuffixProgramData(b"1", b"HZ"))),
            true,
        ));
        rows.push(("u8 from 300", err_of(u8::try_from(Token::DecimalNumericProgramData(b"300"))), true));
        rows.push(("i8 from -129", err_of(i8::try_from(Token::DecimalNumericProgramData(b"-129"))), true));
        rows.push(("u16 from #H10000", err_of(u16::try_from(Token::NonDecimalNumericProgramData(0x10000))), true));
        // type faults
        rows.push(("u8 from a string", err_of(u8::try_from(Token::StringProgramData(b"x"))), false));
        rows.push(("f32 from a number with suffix", err_of(f32::try_from(Token::DecimalNumericSuffixProgramData(b"1", b"V"))), false));
        rows.push(("enum from a number", err_of(crate::device::SimEnum::try_from(Token::DecimalNumericProgramData(b"1"))), false));
        rows.push(("numeric list from a string", err_of(scpi::parser::expression::numeric_list::NumericList::try_from(Token::StringProgramData(b"1")).map(|_| ())), false));
        rows
    });
    match r {
        Ok(v) => rows = v,
        Err(_) => {
            out.push(Finding::new("C01.panic", crate::props::panic_signature(&crate::exec::take_panic()), 0, "a conversion in the C14 API table panicked"));
            return out;
        }
    }
    stats.add("steps", rows.len() as u64);
    stats.probe("api_table_value_faults");
    for (name, code, value_fault) in rows {
        stats.state_str(&format!("api|{}|{:?}", name, code));
        let ok = match code {
            // no error raised: whether one should have been is the business of the value-level
            // properties (C17/C19, not applicable here); C14 only judges the class of raised errors
            None => true,
            Some(c) => {
                if value_fault {
                    is_execution_error(c)
                } else {
                    is_command_error(c)
                }
            }
        };
        if !ok {
            out.push(Finding::new(
                "C14.library_error_class",
                format!("{}_reported_as_{}", name.replace(' ', "_").replace(['(', ')', ','], ""), code.map(|c| c.to_string()).unwrap_or("ok".into())).replace('-', "m"),
                0,
                format!(
                    "{}: the library reports {:?}; {} faults belong to {}",
                    name,
                    code,
                    if value_fault { "value" } else { "type" },
                    if value_fault { "-200..-299" } else { "-100..-199" }
                ),
            ));
        }
    }
    if stats.samples.is_empty() {
        stats.samples.push("\"api table: value faults of public conversions (channel spec tuples, numeric_value resolution, enum, bool, unit suffix) and type faults\"".to_string());
    }
    out
}

fn check_sweep(trace: &Trace, stats: &mut Stats) -> Vec<Finding> {
    let mut out = Vec::new();
    let mut world = match World::new(&trace.config) {
        Some(w) => w,
        None => return vec![Finding::new("harness.config", "unsupported_config", 0, "config")],
    };
    let sends: Vec<&SendStep> = trace
        .steps
        .iter()
        .filter_map(|s| match s {
            Step::Send(x) => Some(x),
            _ => None,
        })
        .collect();
    let full = trace.mode == "sweep_full_queue";
    if sends.len() < 3 {
        return out;
    }
    // set-up: fill the bounded queue
    let prefill = sends.len() - 3;
    for s in &sends[..prefill] {
        let o = world.exec_send(s);
        log_obs(stats, &o);
        if !universal(&o, 0, &mut out) {
            return out;
        }
    }
    if full {
        stats.probe("code_raised_against_full_queue");
        stats.fault("F8_queue_overflow");
    }
    let sends = &sends[prefill..];
    let spec = match sends[0].msg.units.first().and_then(|u| u.plan.fail.as_ref()) {
        Some(f) => f.err,
        None => return out,
    };
    let code = spec.code;
    stats.fault("F12_error_code_sweep");
    stats.state(&code.to_le_bytes());
    let bit = class_bit(code);
    stats.probe(match bit {
        0x00 => "class_none",
        0x20 => "class_command",
        0x10 => "class_execution",
        0x08 => {
            if code > 0 {
                "class_positive"
            } else if code < -899 {
                "class_below_minus_899"
            } else {
                "class_device"
            }
        }
        0x04 => "class_query",
        0x80 => "class_power_on",
        0x40 => "class_user_request",
        0x02 => "class_request_control",
        _ => "class_operation_complete",
    });
    match code {
        -99 => stats.probe("edge_minus_99"),
        -100 => stats.probe("edge_minus_100"),
        -199 => stats.probe("edge_minus_199"),
        -200 => stats.probe("edge_minus_200"),
        -899 => stats.probe("edge_minus_899"),
        -900 => stats.probe("edge_minus_900"),
        i16::MIN => stats.probe("i16_min"),
        i16::MAX => stats.probe("i16_max"),
        _ => {}
    }
    // 0. looking a standard code up yields the error that reports that same code
    {
        let looked = std::panic::catch_unwind(|| scpi::error::ErrorCode::get_error(code).map(|e| e.get_code()));
        match looked {
            Ok(Some(c)) if c != code => {
                out.push(Finding::new(
                    "C14.lookup",
                    "lookup_yields_error_with_different_code",
                    0,
                    format!("ErrorCode::get_error({}) yields an error that reports code {}", code, c),
                ));
                return out;
            }
            Ok(None) if STANDARD_CODES.contains(&code) => {
                out.push(Finding::new(
                    "C14.lookup",
                    "standard_code_not_found",
                    0,
                    format!("ErrorCode::get_error({}) yields nothing although {} is a standard SCPI error number", code, code),
                ));
                return out;
            }
            Err(_) => {
                out.push(Finding::new("C14.lookup", "lookup_panicked", 0, format!("ErrorCode::get_error({}) panicked: {}", code, crate::exec::take_panic())));
                return out;
            }
            _ => {}
        }
        if STANDARD_CODES.contains(&code) {
            stats.probe("standard_code_lookup");
        }
    }
    // 1. the failing message
    stats.add("steps", 3);
    let o = world.exec_send(sends[0]);
    log_obs(stats, &o);
    if !universal(&o, 0, &mut out) {
        return out;
    }
    match &o.result {
        Err(e) => {
            if e.code != code {
                out.push(Finding::new(
                    "C14.lookup",
                    "error_reports_different_code",
                    0,
                    format!("handler raised error number {} but the returned error reports {} ({:?})", code, e.code, e),
                ));
                return out;
            }
        }
        Ok(()) => {
            out.push(Finding::new(
                "C14.lookup",
                "raised_error_lost",
                0,
                format!("handler raised error number {} but run returned Ok", code),
            ));
            return out;
        }
    }
    // 2. *ESR?
    let o = world.exec_send(sends[1]);
    log_obs(stats, &o);
    if !universal(&o, 1, &mut out) {
        return out;
    }
    let want = format!("{}\n", bit).into_bytes();
    if o.result.is_err() || o.out != want {
        let got: Option<u32> = std::str::from_utf8(&o.out).ok().and_then(|s| s.trim().parse().ok());
        let sig = match got {
            Some(g) => format!("esr_{:#04x}_for_class_bit_{:#04x}", g, bit),
            None => "esr_query_failed".to_string(),
        };
        out.push(Finding::new(
            "C14.class_bit",
            sig,
            1,
            format!("error number {}: *ESR? answered {:?} (result {:?}), the class bit is {}", code, B(o.out.clone()), o.result, bit),
        ));
    }
    if full {
        // the queue holds the older events / the overflow marker: nothing more to compare
        return out;
    }
    // 3. SYST:ERR?
    let o = world.exec_send(sends[2]);
    log_obs(stats, &o);
    if !universal(&o, 2, &mut out) {
        return out;
    }
    let prefix = format!("{},\"", code).into_bytes();
    if o.result.is_err() || !o.out.starts_with(&prefix) {
        out.push(Finding::new(
            "C14.lookup",
            "queue_item_reports_different_code",
            2,
            format!("error number {}: SYST:ERR? answered {:?} (result {:?})", code, B(o.out.clone()), o.result),
        ));
    }
    if (trace.run < 2 || trace.run == 32768 - 113) && stats.samples.is_empty() {
        stats.samples.push(
            serde_json::to_string(&serde_json::json!({"error_number": code, "messages": sends.iter().map(|s| describe_msg(s)).collect::<Vec<_>>(), "esr_answer": format!("{}", bit)})).unwrap(),
        );
    }
    out
}
