//! Seeded search over simulated runs: worker pool with deterministic chunking, known-finding
//! matching, minimisation, replay files, evidence.

use std::collections::BTreeMap;
use std::path::{Path, PathBuf};
use std::sync::atomic::{AtomicBool, Ordering};
use std::sync::Mutex;
use std::time::Instant;

use serde::{Deserialize, Serialize};

use crate::stats::Stats;
use crate::types::*;

#[derive(Clone, Copy, Debug, PartialEq, Eq)]
pub enum Tier {
    Quick,
    Thorough,
    /// a small slice for Miri / smoke tests
    Tiny,
}

impl Tier {
    pub fn name(&self) -> &'static str {
        match self {
            Tier::Quick => "quick",
            Tier::Thorough => "thorough",
            Tier::Tiny => "quick",
        }
    }
}

#[derive(Clone, Debug, PartialEq)]
pub struct Finding {
    pub invariant: String,
    pub signature: String,
    pub step: usize,
    pub detail: String,
}

impl Finding {
    pub fn new(invariant: &str, signature: impl Into<String>, step: usize, detail: impl Into<String>) -> Self {
        Finding {
            invariant: invariant.to_string(),
            signature: signature.into(),
            step,
            detail: detail.into(),
        }
    }
    pub fn info(&self) -> ViolationInfo {
        ViolationInfo {
            invariant: self.invariant.clone(),
            signature: self.signature.clone(),
            step: self.step,
            detail: self.detail.clone(),
        }
    }
    pub fn fatal(&self) -> bool {
        self.invariant.ends_with(".panic") || self.invariant.ends_with(".hang")
    }
}

pub trait Prop: Sync + Send {
    fn id(&self) -> &'static str;
    fn level(&self) -> &'static str;
    fn rule(&self) -> &'static str;
    fn assumptions(&self) -> Vec<String>;
    /// number of simulated runs for a tier (budgets are run counts, never seconds)
    fn runs(&self, tier: Tier) -> u64;
    /// pure function of (seed, run, tier)
    fn gen(&self, seed: u64, run: u64, tier: Tier) -> Trace;
    /// execute the trace against the real code, compare with the reference model
    fn check(&self, trace: &Trace, stats: &mut Stats) -> Vec<Finding>;
    /// probes that must be hit at least once in a full quick run (reach self-test)
    fn required_probes(&self) -> Vec<String> {
        Vec::new()
    }
}

#[derive(Clone, Debug, Serialize, Deserialize)]
pub struct KnownFinding {
    pub property: String,
    pub invariant: String,
    pub signature: String,
    /// "known" or "fixed"
    pub status: String,
    pub what: String,
    #[serde(default)]
    pub commit: Option<String>,
}

pub fn verif_dir() -> PathBuf {
    std::env::var("VERIF_DIR").map(PathBuf::from).unwrap_or_else(|_| PathBuf::from("/verif"))
}

pub fn load_known() -> Vec<KnownFinding> {
    let p = verif_dir().join("known_findings.json");
    match std::fs::read_to_string(&p) {
        Ok(s) => serde_json::from_str(&s).unwrap_or_else(|e| {
            eprintln!("harness error: cannot parse {}: {}", p.display(), e);
            std::process::exit(2);
        }),
        Err(_) => Vec::new(),
    }
}

pub fn is_known<'a>(known: &'a [KnownFinding], prop: &str, f: &Finding) -> Option<&'a KnownFinding> {
    known
        .iter()
        .find(|k| k.status == "known" && k.property == prop && k.invariant == f.invariant && k.signature == f.signature)
}

pub fn profile_name() -> &'static str {
    if cfg!(debug_assertions) {
        "dbg"
    } else {
        "rel"
    }
}

pub struct RunOutcome {
    pub stats: Stats,
    pub runs_done: u64,
    pub known_hits: BTreeMap<String, (u64, String)>,
    pub violation: Option<(Trace, Finding)>,
    pub wall_s: f64,
}

fn workers() -> usize {
    std::env::var("VERIF_WORKERS")
        .ok()
        .and_then(|s| s.parse().ok())
        .unwrap_or_else(|| std::thread::available_parallelism().map(|n| n.get()).unwrap_or(4).min(16))
}

/// Watchdog slot: the trace currently being executed by each worker (for hang reports)
pub static IN_FLIGHT: Mutex<Vec<Option<(u64, Instant)>>> = Mutex::new(Vec::new());

pub fn search(prop: &dyn Prop, tier: Tier, seed: u64, run_from: u64, run_to: u64) -> RunOutcome {
    let t0 = Instant::now();
    let known = load_known();
    let nworkers = workers().max(1);
    let chunk: u64 = 4096;
    let mut merged = Stats::new();
    let mut known_hits: BTreeMap<String, (u64, String)> = BTreeMap::new();
    let mut violation: Option<(Trace, Finding)> = None;
    let mut done = 0u64;
    {
        let mut g = IN_FLIGHT.lock().unwrap();
        *g = vec![None; nworkers];
    }
    let hang = AtomicBool::new(false);
    let mut a = run_from;
    while a < run_to && violation.is_none() {
        let b = (a + chunk).min(run_to);
        let results: Mutex<Vec<(u64, Vec<Finding>, Stats)>> = Mutex::new(Vec::new());
        // dynamic assignment inside the chunk (runs are independent and results are merged in
        // run order afterwards, so which worker executes which run does not matter)
        let next = std::sync::atomic::AtomicU64::new(a);
        std::thread::scope(|s| {
            for w in 0..nworkers {
                let results = &results;
                let hang = &hang;
                let next = &next;
                s.spawn(move || {
                    let mut local: Vec<(u64, Vec<Finding>, Stats)> = Vec::new();
                    loop {
                        let run = next.fetch_add(1, Ordering::Relaxed);
                        if run >= b || hang.load(Ordering::Relaxed) {
                            break;
                        }
                        let trace = match std::panic::catch_unwind(std::panic::AssertUnwindSafe(|| prop.gen(seed, run, tier))) {
                            Ok(t) => t,
                            Err(_) => harness_panic(prop.id(), seed, run, "generator"),
                        };
                        if cfg!(miri) {
                            println!("MIRI-RUN {}", run);
                        }
                        {
                            let mut g = IN_FLIGHT.lock().unwrap();
                            g[w] = Some((run, Instant::now()));
                        }
                        let mut st = Stats::new();
                        // (the library runs under its own catch_unwind inside; a panic arriving
                        // here is the harness's own)
                        let findings = match std::panic::catch_unwind(std::panic::AssertUnwindSafe(|| prop.check(&trace, &mut st))) {
                            Ok(f) => f,
                            Err(_) => harness_panic(prop.id(), seed, run, "checker"),
                        };
                        {
                            let mut g = IN_FLIGHT.lock().unwrap();
                            g[w] = None;
                        }
                        local.push((run, findings, st));
                    }
                    results.lock().unwrap().extend(local);
                });
            }
        });
        let mut rs = results.into_inner().unwrap();
        rs.sort_by_key(|r| r.0);
        for (run, findings, st) in rs {
            merged.merge(&st);
            done += 1;
            for f in findings {
                if let Some(k) = is_known(&known, prop.id(), &f) {
                    let e = known_hits
                        .entry(format!("{}|{}", f.invariant, f.signature))
                        .or_insert((0, k.what.clone()));
                    e.0 += 1;
                } else if violation.is_none() {
                    let trace = prop.gen(seed, run, tier);
                    violation = Some((trace, f));
                }
            }
            if violation.is_some() {
                break;
            }
        }
        a = b;
    }
    RunOutcome {
        stats: merged,
        runs_done: done,
        known_hits,
        violation,
        wall_s: t0.elapsed().as_secs_f64(),
    }
}

/// Start the hang watchdog: if one simulated run has been executing for `limit_s` seconds of
/// wall time, dump its identity and abort the process with exit 1 (C01: fails to terminate).
pub fn start_watchdog(prop_id: &'static str, seed: u64, tier: Tier, limit_s: u64, gen: impl Fn(u64) -> Trace + Send + 'static) {
    std::thread::spawn(move || loop {
        std::thread::sleep(std::time::Duration::from_millis(500));
        let stuck: Option<u64> = {
            let g = IN_FLIGHT.lock().unwrap();
            g.iter()
                .flatten()
                .find(|(_, t)| t.elapsed().as_secs() >= limit_s)
                .map(|(r, _)| *r)
        };
        if let Some(run) = stuck {
            let mut trace = gen(run);
            trace.violation = Some(ViolationInfo {
                invariant: "C01.hang".to_string(),
                signature: "run_did_not_terminate".to_string(),
                step: 0,
                detail: format!("simulated run did not finish within {} s of wall time", limit_s),
            });
            let path = replay_path(prop_id, seed, run, "hang");
            let _ = write_trace(&path, &trace);
            println!("VIOLATION property={} replay={}", prop_id, path.display());
            println!("  invariant=C01.hang signature=run_did_not_terminate tier={}", tier.name());
            std::process::exit(1);
        }
    });
}

pub fn replay_path(prop: &str, seed: u64, run: u64, tag: &str) -> PathBuf {
    let dir = verif_dir().join("replays");
    let _ = std::fs::create_dir_all(&dir);
    dir.join(format!("{}-{}-seed{}-run{}.{}.json", prop, profile_name(), seed, run, tag))
}

pub fn write_trace(path: &Path, t: &Trace) -> std::io::Result<()> {
    let s = serde_json::to_string_pretty(t).unwrap();
    std::fs::write(path, s)
}

pub fn read_trace(path: &Path) -> Result<Trace, String> {
    let s = std::fs::read_to_string(path).map_err(|e| e.to_string())?;
    serde_json::from_str(&s).map_err(|e| e.to_string())
}

/// Does executing `t` reproduce a finding with the same (invariant, signature)?
pub fn reproduces(prop: &dyn Prop, t: &Trace, target: &Finding) -> Option<Finding> {
    let mut st = Stats::new();
    prop.check(t, &mut st)
        .into_iter()
        .find(|f| f.invariant == target.invariant && f.signature == target.signature)
}

// ------------------------------------------------------------------------------------------
// Evidence

#[derive(Clone, Debug, Serialize, Deserialize, Default)]
pub struct Part {
    pub property_id: String,
    pub tier: String,
    pub seed: u64,
    pub profile: String,
    pub runs: u64,
    pub wall_s: f64,
    pub counters: BTreeMap<String, u64>,
    /// number of distinct fingerprints (both build profiles execute the same traces, so the sets
    /// are identical and need not be stored)
    pub states: u64,
    pub shapes: u64,
    pub log_hash: u64,
    pub samples: Vec<String>,
    pub known_hits: BTreeMap<String, (u64, String)>,
    pub violations: u64,
    pub extra: BTreeMap<String, serde_json::Value>,
}

pub fn part_from(prop: &dyn Prop, tier: Tier, seed: u64, o: &RunOutcome) -> Part {
    Part {
        property_id: prop.id().to_string(),
        tier: tier.name().to_string(),
        seed,
        profile: profile_name().to_string(),
        runs: o.runs_done,
        wall_s: o.wall_s,
        counters: o.stats.counters.clone(),
        states: o.stats.states.len() as u64,
        shapes: o.stats.shapes.len() as u64,
        log_hash: o.stats.log_hash,
        samples: o.stats.samples.clone(),
        known_hits: o.known_hits.clone(),
        violations: if o.violation.is_some() { 1 } else { 0 },
        extra: BTreeMap::new(),
    }
}

pub fn parts_dir() -> PathBuf {
    let d = verif_dir().join("evidence").join("parts");
    let _ = std::fs::create_dir_all(&d);
    d
}

pub fn write_part(p: &Part, tag: &str) {
    let path = parts_dir().join(format!("{}.{}.{}.json", p.property_id, p.tier, tag));
    std::fs::write(path, serde_json::to_string(p).unwrap()).expect("write evidence part");
}

pub const COMPONENTS_REAL: &[&str] = &[
    "scpi: tokenizer, tree dispatch (Node::run), Parameters, TryFrom<Token> conversions, expression iterators, ResponseUnit/Formatter, Vec<u8> and ArrayVec<u8,N> formatters, Vec<Error> and ArrayVec<Error,N> error queues, ErrorCode tables, esr_mask",
    "scpi-contrib: ScpiDevice default methods (push_error, scpi_stb, scpi_cls, scpi_opc, preset), EventRegister, all IEEE 488.2 common command handlers, STATus and SYSTem subsystem handlers, ieee488_*!/scpi_status!/scpi_system! tree macros",
    "scpi-derive: ScpiError / ScpiEnum derive output (compiled in)",
];

pub const COMPONENTS_STUB: &[&str] = &[
    "controllers and workload (message structure generator/renderer)",
    "transport (in-flight corruption, per-controller output queue => Context.mav)",
    "hardware actor (condition register changes, self-test result)",
    "application command handlers (SimHandler following per-unit plans)",
    "device struct (fields only; wired like examples/minimal_scpi.rs)",
    "fault-injecting formatter (via hook verif-hooks), counting global allocator",
];

/// Merge evidence parts (one per build profile) into /verif/evidence/<id>.json
pub fn merge_parts(prop: &dyn Prop, tier: Tier, tags: &[&str]) -> Result<(), String> {
    let mut parts: Vec<Part> = Vec::new();
    for t in tags {
        let path = parts_dir().join(format!("{}.{}.{}.json", prop.id(), tier.name(), t));
        let s = std::fs::read_to_string(&path).map_err(|e| format!("{}: {}", path.display(), e))?;
        parts.push(serde_json::from_str(&s).map_err(|e| e.to_string())?);
    }
    let mut counters: BTreeMap<String, u64> = BTreeMap::new();
    let mut states: u64 = 0;
    let mut shapes: u64 = 0;
    let mut runs = 0;
    let mut wall = 0.0;
    let mut violations = 0;
    let mut samples: Vec<serde_json::Value> = Vec::new();
    let mut known: BTreeMap<String, (u64, String)> = BTreeMap::new();
    let mut per_profile = serde_json::Map::new();
    let mut extra = serde_json::Map::new();
    for p in &parts {
        for (k, v) in &p.counters {
            *counters.entry(k.clone()).or_insert(0) += v;
        }
        states = states.max(p.states);
        shapes = shapes.max(p.shapes);
        runs += p.runs;
        wall += p.wall_s;
        violations += p.violations;
        for s in &p.samples {
            if samples.len() < 6 {
                samples.push(serde_json::from_str(s).unwrap_or(serde_json::Value::String(s.clone())));
            }
        }
        for (k, v) in &p.known_hits {
            let e = known.entry(k.clone()).or_insert((0, v.1.clone()));
            e.0 += v.0;
        }
        per_profile.insert(
            p.profile.clone(),
            serde_json::json!({"runs": p.runs, "wall_s": p.wall_s, "event_log_hash": format!("{:016x}", p.log_hash)}),
        );
        for (k, v) in &p.extra {
            extra.insert(format!("{}.{}", p.profile, k), v.clone());
        }
    }
    let faults: BTreeMap<String, u64> = counters
        .iter()
        .filter(|(k, _)| k.starts_with("fault."))
        .map(|(k, v)| (k[6..].to_string(), *v))
        .collect();
    let probes: BTreeMap<String, u64> = counters
        .iter()
        .filter(|(k, _)| k.starts_with("probe."))
        .map(|(k, v)| (k[6..].to_string(), *v))
        .collect();
    let other: BTreeMap<String, u64> = counters
        .iter()
        .filter(|(k, _)| !k.starts_with("probe.") && !k.starts_with("fault."))
        .map(|(k, v)| (k.clone(), *v))
        .collect();
    let steps = counters.get("steps").copied().unwrap_or(0);
    let runs_per_hour = if wall > 0.0 { (runs as f64 / wall * 3600.0) as u64 } else { 0 };
    let ev = serde_json::json!({
        "property_id": prop.id(),
        "tier": tier.name(),
        "seed": parts.first().map(|p| p.seed).unwrap_or(0),
        "level": prop.level(),
        "coverage": {
            "evaluations": runs,
            "distinct_nontrivial": states,
            "rule": prop.rule(),
            "samples": samples,
            "simulated_runs": runs,
            "simulated_runs_per_hour": runs_per_hour,
            "seeds_per_hour": runs_per_hour,
            "simulated_time": {"unit": "simulator events (steps); the library has no clock", "steps": steps},
            "distinct_schedule_shapes": shapes,
            "faults_fired": faults,
            "probes_hit": probes,
            "counters": other,
            "build_profiles": per_profile,
            "known_findings_hit": known.iter().map(|(k, v)| serde_json::json!({"finding": k, "hits": v.0, "what": v.1})).collect::<Vec<_>>(),
            "components_real": COMPONENTS_REAL,
            "components_stub": COMPONENTS_STUB,
            "extra": extra,
            "exhaustive": false,
        },
        "assumptions": prop.assumptions(),
        "wall_s": wall,
        "violations": violations,
    });
    let dir = verif_dir().join("evidence");
    let _ = std::fs::create_dir_all(&dir);
    let path = dir.join(format!("{}.json", prop.id()));
    std::fs::write(&path, serde_json::to_string_pretty(&ev).unwrap()).map_err(|e| e.to_string())?;
    Ok(())
}

/// A panic in the harness itself (not in the library under test, which runs under catch_unwind):
/// never a verdict about the property. Exit code 2.
fn harness_panic(prop: &str, seed: u64, run: u64, what: &str) -> ! {
    eprintln!("HARNESS-ERROR property={} seed={} run={}: the {} panicked: {}", prop, seed, run, what, crate::exec::take_panic());
    std::process::exit(2)
}
